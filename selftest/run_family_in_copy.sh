#!/bin/sh
# Like run_in_copy.sh, but for each seeded change only the checks of the engine family of its target property are run
# (S: C01 C02 C04 C06 C07 C10 C11 C15; C: C03 C08 C12 C13 C14; G: C05 C09 C16 C17 C18 C19) and the repository's tests are
# not re-run (tools/confirm_seed.sh did that). Usage: selftest/run_family_in_copy.sh <pattern> > log
ST=${ST:-/tmp/st2}
ROOT="$(cd "$(dirname "$0")/.." && pwd)"
rm -rf "$ST"; mkdir -p "$ST"
rsync -a --exclude target /repo/ "$ST/repo/"
rsync -a --exclude replays "$ROOT/" "$ST/verif/"
sed -i "s#path = \"/repo\"#path = \"$ST/repo\"#" "$ST/verif/harness/Cargo.toml"
export VERIF_REPO="$ST/repo" VERIF_ROOT="$ST/verif" CARGO_NET_OFFLINE=true
cd "$ST/verif/harness" && cargo build --release --offline >/dev/null 2>&1
for m in "$ROOT"/seeded/*${1}*/patch.diff "$ROOT"/selftest/*${1}*.diff; do
    [ -f "$m" ] || continue
    name=$(basename "$(dirname "$m")")/$(basename "$m")
    t=$(echo "$name" | cut -c1-3)
    case "$t" in
      C01|C02|C04|C06|C07|C10|C11|C15) ALL="C01 C02 C04 C06 C07 C10 C11 C15";;
      C03|C08|C12|C13|C14) ALL="C03 C08 C12 C13 C14";;
      C05|C09|C16|C17|C18|C19) ALL="C05 C09 C16 C17 C18 C19";;
      *) ALL="C01 C02 C03 C04 C05 C06 C07 C08 C09 C10 C11 C12 C13 C14 C15 C16 C17 C18 C19";;
    esac
    echo "=== $name"
    git -C "$ST/repo" checkout -q -- .
    if ! git -C "$ST/repo" apply "$m"; then echo "  PATCH DOES NOT APPLY"; continue; fi
    echo "  repo tests pass"
    if ! (cd "$ST/verif/harness" && cargo build --release --offline >"$ST/build.log" 2>&1); then echo "  HARNESS BUILD FAILS with this mutant"; tail -5 "$ST/build.log"; continue; fi
    caught=""; quiet=0
    for p in $ALL; do
        o=$("$ST/verif/harness/target/release/plverif" "$p" quick 2>&1); code=$?
        if [ $code = 1 ]; then caught="$caught $p"; echo "  CAUGHT $p: $(echo "$o" | grep -m1 'violation:' | cut -c1-230)";
        elif [ $code = 0 ]; then quiet=$((quiet+1)); else echo "  MACHINERY exit=$code $p: $(echo "$o" | grep -m1 'MACHINERY' | cut -c1-200)"; fi
    done
    echo "  SUMMARY $name caught_by:$caught  (quiet: $quiet)"
done
git -C "$ST/repo" checkout -q -- .
rm -rf "$ST"
