#!/bin/sh
# Applies every mutant of this directory (and of ../seeded/*/patch.diff) to /repo in turn, confirms the repository's
# own tests still pass with it, runs every quick check, and prints which checks report a violation.
# /repo is restored after each mutant. Usage: selftest/run.sh [pattern]
ROOT="$(cd "$(dirname "$0")/.." && pwd)"
ALL="C01 C02 C03 C04 C05 C06 C07 C08 C09 C10 C11 C12 C13 C14 C15 C16 C17 C18 C19"
for m in "$ROOT"/selftest/*${1}*.diff "$ROOT"/seeded/*${1}*/patch.diff; do
    [ -f "$m" ] || continue
    echo "=== $m"
    "$ROOT/tools/try_mutant.sh" --tests "$m" $ALL | awk '{ if ($0 ~ /exit=1/) print "  CAUGHT  " $0; else if ($0 ~ /exit=0/) c++; else print "  " $0 } END { print "  (" c " checks quiet)" }'
done
