#!/bin/sh
# Runs every behaviour-preserving change of benign/ through all 19 quick checks in a scratch copy (see run_in_copy.sh); every line must say "quiet: 19".
# copies /repo and /verif to $ST (default /tmp/st), points the harness copy at the repo copy, then for every mutant
# patch (selftest/*.diff, seeded/*/patch.diff) applies it to the repo copy, runs the repo's own tests and every quick check.
# The scratch copy is removed at the end. Usage: selftest/run_in_copy.sh [pattern] > selftest/last_run.log
ST=${ST:-/tmp/stb}
ROOT="$(cd "$(dirname "$0")/.." && pwd)"
ALL="C01 C02 C03 C04 C05 C06 C07 C08 C09 C10 C11 C12 C13 C14 C15 C16 C17 C18 C19"
rm -rf "$ST"; mkdir -p "$ST"
rsync -a --exclude target /repo/ "$ST/repo/"
rsync -a --exclude replays "$ROOT/" "$ST/verif/"
sed -i "s#path = \"/repo\"#path = \"$ST/repo\"#" "$ST/verif/harness/Cargo.toml"
export VERIF_REPO="$ST/repo" VERIF_ROOT="$ST/verif" CARGO_NET_OFFLINE=true
cd "$ST/verif/harness" && cargo build --release --offline >/dev/null 2>&1
for m in "$ROOT"/benign/*${1}*/patch.diff; do
    [ -f "$m" ] || continue
    name=$(basename "$(dirname "$m")")/$(basename "$m")
    echo "=== $name"
    git -C "$ST/repo" checkout -q -- . 
    if ! git -C "$ST/repo" apply "$m"; then echo "  PATCH DOES NOT APPLY"; continue; fi
    out=$(cd "$ST/repo" && cargo test --workspace --no-fail-fast --offline 2>&1)
    if echo "$out" | grep -q "test result: FAILED\|error\["; then echo "  REPO-TESTS FAIL"; else echo "  repo tests pass"; fi
    if ! (cd "$ST/verif/harness" && cargo build --release --offline >"$ST/build.log" 2>&1); then echo "  HARNESS BUILD FAILS with this mutant"; tail -5 "$ST/build.log"; continue; fi
    caught=""; quiet=0
    for p in $ALL; do
        o=$("$ST/verif/harness/target/release/plverif" "$p" quick 2>&1); code=$?
        if [ $code = 1 ]; then caught="$caught $p"; echo "  CAUGHT $p: $(echo "$o" | grep -m1 'violation:' | cut -c1-230)";
        elif [ $code = 0 ]; then quiet=$((quiet+1)); else echo "  MACHINERY exit=$code $p: $(echo "$o" | grep -m1 'MACHINERY' | cut -c1-200)"; fi
    done
    echo "  SUMMARY $name caught_by:$caught  (quiet: $quiet)"
done
git -C "$ST/repo" checkout -q -- .
rm -rf "$ST"
