//! Harness side of the hook layer for the sequential engines: a recorder that mirrors the ticket
//! queues, counts steps (C06 budget) and remembers which objects were created.

use pricelevel::verif_hooks::{self, Class, Event, Kind, Phase};
use std::cell::{Cell, RefCell};
use std::collections::{HashMap, VecDeque};
use std::rc::Rc;

/// Panic payload used to unwind a call that exceeded its step budget.
pub struct BudgetExceeded;

#[derive(Default)]
pub struct RecState {
    pub steps: Cell<u64>,
    pub budget: Cell<u64>,
    /// queue object id -> mirrored ticket queue
    pub tickets: RefCell<HashMap<u64, VecDeque<[u8; 16]>>>,
    /// objects created, in order
    pub created: RefCell<Vec<(Class, u64)>>,
    pub mirror_errors: Cell<u64>,
    pub other_ops: Cell<u64>,
    /// optional raw trace
    pub trace: RefCell<Option<Vec<Event>>>,
}

pub struct Recorder {
    pub st: Rc<RecState>,
}

impl Recorder {
    /// installs the recorder as this thread's hook
    pub fn install() -> Recorder {
        let st = Rc::new(RecState::default());
        st.budget.set(u64::MAX);
        let st2 = st.clone();
        verif_hooks::reset_object_ids();
        verif_hooks::set_listing_permutation(Some(0));
        verif_hooks::set_thread_hook(Some(Rc::new(move |ev: &Event| {
            let st = &st2;
            if let Some(t) = st.trace.borrow_mut().as_mut() {
                t.push(*ev);
            }
            match ev.phase {
                Phase::New => st.created.borrow_mut().push((ev.class, ev.obj)),
                Phase::Before => {
                    let n = st.steps.get() + 1;
                    st.steps.set(n);
                    if ev.kind == Kind::Other {
                        st.other_ops.set(st.other_ops.get() + 1);
                    }
                    if n > st.budget.get() {
                        st.budget.set(u64::MAX);
                        std::panic::resume_unwind(Box::new(BudgetExceeded));
                    }
                }
                Phase::After => {
                    if ev.class == Class::Queue {
                        let mut t = st.tickets.borrow_mut();
                        let q = t.entry(ev.obj).or_default();
                        match ev.kind {
                            Kind::Push => q.push_back(ev.key.unwrap_or_default()),
                            Kind::Pop => {
                                if ev.found {
                                    if q.pop_front() != ev.key {
                                        st.mirror_errors.set(st.mirror_errors.get() + 1);
                                    }
                                } else if !q.is_empty() {
                                    st.mirror_errors.set(st.mirror_errors.get() + 1);
                                }
                            }
                            _ => {}
                        }
                    }
                }
            }
        })));
        Recorder { st }
    }

    pub fn reset(&self) {
        verif_hooks::reset_object_ids();
        verif_hooks::set_listing_permutation(Some(0));
        self.st.steps.set(0);
        self.st.budget.set(u64::MAX);
        self.st.tickets.borrow_mut().clear();
        self.st.created.borrow_mut().clear();
        self.st.mirror_errors.set(0);
        self.st.other_ops.set(0);
    }

    /// id of the most recently created queue object
    pub fn last_queue(&self) -> Option<u64> {
        self.st
            .created
            .borrow()
            .iter()
            .rev()
            .find(|(c, _)| *c == Class::Queue)
            .map(|(_, id)| *id)
    }

    pub fn tickets_of(&self, q: u64) -> Vec<[u8; 16]> {
        self.st
            .tickets
            .borrow()
            .get(&q)
            .map(|d| d.iter().copied().collect())
            .unwrap_or_default()
    }

    /// run `f` with a step budget; `Err(())` if the budget was exceeded (the call did not return)
    pub fn with_budget<R>(&self, budget: u64, f: impl FnOnce() -> R) -> Result<R, BudgetOrPanic> {
        let start = self.st.steps.get();
        self.st.budget.set(start.saturating_add(budget));
        let r = std::panic::catch_unwind(std::panic::AssertUnwindSafe(f));
        self.st.budget.set(u64::MAX);
        match r {
            Ok(v) => Ok(v),
            Err(p) => {
                if p.is::<BudgetExceeded>() {
                    Err(BudgetOrPanic::Budget)
                } else {
                    let msg = if let Some(s) = p.downcast_ref::<String>() {
                        s.clone()
                    } else if let Some(s) = p.downcast_ref::<&str>() {
                        s.to_string()
                    } else {
                        "panic".to_string()
                    };
                    Err(BudgetOrPanic::Panic(msg))
                }
            }
        }
    }
}

#[derive(Debug, Clone)]
pub enum BudgetOrPanic {
    Budget,
    Panic(String),
}

impl Drop for Recorder {
    fn drop(&mut self) {
        verif_hooks::set_thread_hook(None);
        verif_hooks::set_listing_permutation(None);
    }
}

/// Silence the default panic message for expected unwinds (budget, injected), keep it for others.
pub fn install_quiet_panic_hook() {
    let default = std::panic::take_hook();
    std::panic::set_hook(Box::new(move |info| {
        if info.payload().is::<BudgetExceeded>() {
            return;
        }
        if std::env::var("VERIF_SHOW_PANICS").is_ok() {
            default(info);
        }
    }));
}
