//! Engine S subject: histories of operations on one real `PriceLevel`, checked against the
//! property predicates and the reference model (C01 C02 C04 C06 C07 C10 C15).

use crate::common::*;
use crate::model::*;
use crate::rec::{BudgetOrPanic, Recorder};
use crate::seqmc::{StepOut, Subject};
use pricelevel::{
    MatchResult, OrderId, OrderType, OrderUpdate, PriceLevel, PriceLevelData, PriceLevelSnapshot,
    PriceLevelSnapshotPackage, Side, UuidGenerator,
};
use serde::Serialize;
use std::str::FromStr;
use std::sync::Arc;
use uuid::Uuid;

pub const NS: Uuid = Uuid::from_u128(0x6ba7b810_9dad_11d1_80b4_00c04fd430c8);
pub const TAKER: u64 = 900;
pub const DRAIN_QTY: u64 = 1_000_000;
pub const CALL_BUDGET: u64 = 5_000;

#[derive(Clone, Copy, Debug, PartialEq, Eq, Hash, Serialize)]
pub enum UpdKind {
    Cancel,
    Move,
    RepriceSame,
    Amend(u64),
    PqSame(u64),
    PqMove(u64),
    ReplaceSame(u64),
    ReplaceMove(u64),
}

#[derive(Clone, Copy, Debug, PartialEq, Eq, Hash, Serialize)]
pub enum Path {
    FromSnapshot,
    FromRef,
    Package,
    SnapJson,
    Serde,
    Text,
    Data,
}

pub const ALL_PATHS: [Path; 7] = [
    Path::FromSnapshot,
    Path::FromRef,
    Path::Package,
    Path::SnapJson,
    Path::Serde,
    Path::Text,
    Path::Data,
];

#[derive(Clone, Copy, Debug, PartialEq, Eq, Hash, Serialize)]
pub enum Op {
    Add(u64, usize),
    Match(u64),
    Upd(UpdKind, u64),
    Restore(Path),
    /// macro letter: add n Standard(2) orders under ids 100.. (many resting orders in one transition)
    BulkAdd(u64),
    /// macro letter: cancel ids 100..100+k
    BulkCancel(u64),
    /// macro letter: add n dormant orders IC(0,2) under ids 300..
    BulkDormant(u64),
    /// macro letter: k same-price quantity amendments (to 1) of one order (many stale tickets)
    Churn(u64, u64),
    /// macro letter: n quotes - an order added under id 500 and cancelled again, n times (n stale tickets, nothing resting)
    Quotes(u64),
}

/// a dormant order (nothing displayed, nothing it could replenish with: iceberg 0 / 2) for the macro letter
pub fn dormant_order(i: u64, price: u64) -> Ord_ {
    OrderType::IcebergOrder {
        id: oid(300 + i),
        price,
        visible_quantity: 0,
        hidden_quantity: 2,
        side: Side::Buy,
        timestamp: 3000 + i,
        time_in_force: pricelevel::TimeInForce::Gtc,
        extra_fields: (),
    }
}

pub fn bulk_order(i: u64, price: u64) -> Ord_ {
    OrderType::Standard {
        id: oid(100 + i),
        price,
        quantity: 2,
        side: Side::Buy,
        timestamp: 1000 + i,
        time_in_force: pricelevel::TimeInForce::Gtc,
        extra_fields: (),
    }
}

#[derive(Clone, Debug, Default)]
pub struct Checks {
    pub c01: bool,
    pub c02: bool,
    pub c04: bool,
    pub c06: bool,
    pub c07: bool,
    pub c10: bool,
    pub c11: bool,
    pub c15: bool,
    pub twin: bool,
    pub drain: bool,
}

#[derive(Clone, Debug)]
pub struct LevelCfg {
    pub prop: String,
    pub name: String,
    pub price: u64,
    pub templates: Vec<(String, Ord_)>,
    pub ops: Vec<Op>,
    /// updates are enabled for ids that are not resting
    pub absent_ops: bool,
    pub check: Checks,
    pub stats_in_key: bool,
    /// (kf1, kf2) variants tracked; index 0 is the ideal model when c04 is on
    pub variants: Vec<(bool, bool)>,
    pub known: KnownFindings,
    pub max_orders: usize,
    /// `Some(ms)`: every clock reading of the library is answered by a virtual clock advancing `ms` per reading
    pub clock_step_ms: Option<u64>,
    /// the id the incoming side of every match carries (default: an id that never rests)
    pub taker: u64,
}

impl LevelCfg {
    pub fn op_name(&self, op: &Op) -> String {
        match op {
            Op::Add(id, t) => format!("add {} as #{}", self.templates[*t].0, id),
            Op::Match(q) => format!("match {q}"),
            Op::Upd(k, id) => match k {
                UpdKind::Cancel => format!("cancel #{id}"),
                UpdKind::Move => format!("update_price #{id} -> {}", self.price + 1),
                UpdKind::RepriceSame => format!("update_price #{id} -> {} (same)", self.price),
                UpdKind::Amend(n) => format!("update_quantity #{id} -> {n}"),
                UpdKind::PqSame(n) => format!("update_price_and_quantity #{id} -> ({}, {n})", self.price),
                UpdKind::PqMove(n) => {
                    format!("update_price_and_quantity #{id} -> ({}, {n})", self.price + 1)
                }
                UpdKind::ReplaceSame(n) => format!("replace #{id} -> ({}, {n})", self.price),
                UpdKind::ReplaceMove(n) => format!("replace #{id} -> ({}, {n})", self.price + 1),
            },
            Op::Restore(p) => format!("restore via {p:?}"),
            Op::BulkAdd(n) => format!("add {n} orders S(2) as #100..#{}", 99 + n),
            Op::BulkCancel(k) => format!("cancel #100..#{}", 99 + k),
            Op::BulkDormant(n) => format!("add {n} dormant orders IC(0,2) as #300..#{}", 299 + n),
            Op::Churn(id, k) => format!("{k} x update_quantity #{id} -> 1"),
            Op::Quotes(n) => format!("{n} x (add S(2) as #500; cancel #500)"),
        }
    }

    pub fn make_order(&self, id: u64, t: usize) -> Ord_ {
        let proto = &self.templates[t].1;
        let r = rec(proto);
        // timestamp: taken from the template prototype when it is "pinned" (>= 1000), otherwise from the (id, template) table
        let ts = if r.ts >= 1000 {
            r.ts
        } else {
            let base = match id {
                1 => 20,
                2 => 10,
                3 => 10,
                4 => 20,
                n => 30 + n,
            };
            base + (t as u64 % 2)
        };
        set_id_ts(proto, oid(id), ts)
    }

    pub fn update_of(&self, k: UpdKind, id: u64) -> OrderUpdate {
        let order_id = oid(id);
        match k {
            UpdKind::Cancel => OrderUpdate::Cancel { order_id },
            UpdKind::Move => OrderUpdate::UpdatePrice {
                order_id,
                new_price: self.price + 1,
            },
            UpdKind::RepriceSame => OrderUpdate::UpdatePrice {
                order_id,
                new_price: self.price,
            },
            UpdKind::Amend(n) => OrderUpdate::UpdateQuantity {
                order_id,
                new_quantity: n,
            },
            UpdKind::PqSame(n) => OrderUpdate::UpdatePriceAndQuantity {
                order_id,
                new_price: self.price,
                new_quantity: n,
            },
            UpdKind::PqMove(n) => OrderUpdate::UpdatePriceAndQuantity {
                order_id,
                new_price: self.price + 1,
                new_quantity: n,
            },
            UpdKind::ReplaceSame(n) => OrderUpdate::Replace {
                order_id,
                price: self.price,
                quantity: n,
                side: Side::Buy,
            },
            UpdKind::ReplaceMove(n) => OrderUpdate::Replace {
                order_id,
                price: self.price + 1,
                quantity: n,
                side: Side::Sell,
            },
        }
    }
}

pub fn set_id_ts(o: &Ord_, new_id: OrderId, ts: u64) -> Ord_ {
    let mut n = *o;
    match &mut n {
        OrderType::Standard { id, timestamp, .. }
        | OrderType::IcebergOrder { id, timestamp, .. }
        | OrderType::PostOnly { id, timestamp, .. }
        | OrderType::TrailingStop { id, timestamp, .. }
        | OrderType::PeggedOrder { id, timestamp, .. }
        | OrderType::MarketToLimit { id, timestamp, .. }
        | OrderType::ReserveOrder { id, timestamp, .. } => {
            *id = new_id;
            *timestamp = ts;
        }
    }
    n
}

// ---------------------------------------------------------------------------------------------
// rebuild paths

fn same_level(a: &PriceLevel, b: &PriceLevel, how: &str) -> Result<(), String> {
    let (x, y) = (observe(a), observe(b));
    if (x.price, x.vis, x.hid, x.count) != (y.price, y.vis, y.hid, y.count) || !same_orders(&x.orders, &y.orders) {
        return Err(format!("the JSON form read through a {how} gives another level than the same text parsed directly: {} / {}", y.describe(), x.describe()));
    }
    Ok(())
}

pub fn rebuild_via(level: &PriceLevel, path: Path) -> Result<PriceLevel, String> {
    match path {
        Path::FromSnapshot => PriceLevel::from_snapshot(level.snapshot()).map_err(|e| e.to_string()),
        Path::FromRef => {
            let s = level.snapshot();
            Ok(PriceLevel::from(&s))
        }
        Path::Package => {
            let p = level.snapshot_package().map_err(|e| e.to_string())?;
            PriceLevel::from_snapshot_package(p).map_err(|e| e.to_string())
        }
        Path::SnapJson => {
            let j = level.snapshot_to_json().map_err(|e| e.to_string())?;
            let a = PriceLevel::from_snapshot_json(&j).map_err(|e| e.to_string())?;
            // the same document read from a byte stream and through a generic JSON value
            let b = serde_json::from_reader::<_, PriceLevelSnapshotPackage>(j.as_bytes())
                .map_err(|e| format!("package JSON read through a byte reader: {e}"))
                .and_then(|p| PriceLevel::from_snapshot_package(p).map_err(|e| format!("package JSON read through a byte reader: {e}")))?;
            let c = serde_json::from_str::<serde_json::Value>(&j)
                .and_then(serde_json::from_value::<PriceLevelSnapshotPackage>)
                .map_err(|e| format!("package JSON read through a JSON value: {e}"))
                .and_then(|p| PriceLevel::from_snapshot_package(p).map_err(|e| format!("package JSON read through a JSON value: {e}")))?;
            same_level(&a, &b, "byte reader")?;
            same_level(&a, &c, "JSON value")?;
            Ok(a)
        }
        Path::Serde => {
            let j = serde_json::to_string(level).map_err(|e| e.to_string())?;
            let a = serde_json::from_str::<PriceLevel>(&j).map_err(|e| e.to_string())?;
            let b = serde_json::from_reader::<_, PriceLevel>(j.as_bytes()).map_err(|e| format!("level JSON read through a byte reader: {e}"))?;
            let c = serde_json::from_str::<serde_json::Value>(&j)
                .and_then(serde_json::from_value::<PriceLevel>)
                .map_err(|e| format!("level JSON read through a JSON value: {e}"))?;
            same_level(&a, &b, "byte reader")?;
            same_level(&a, &c, "JSON value")?;
            Ok(a)
        }
        Path::Text => {
            let t = level.to_string();
            PriceLevel::from_str(&t).map_err(|e| format!("{e} (text: {t})"))
        }
        Path::Data => {
            let d = PriceLevelData::from(level);
            PriceLevel::try_from(d).map_err(|e| e.to_string())
        }
    }
}

/// every read-only entry point (C07 purity)
pub fn read_battery(level: &PriceLevel) {
    let _ = level.iter_orders();
    let s = level.snapshot();
    let _ = s.total_quantity();
    let _ = s.to_string();
    let _ = level.snapshot_package().map(|p| p.validate());
    let _ = level.snapshot_to_json();
    let _ = level.to_string();
    let _ = serde_json::to_string(level);
    let _ = PriceLevelData::from(level);
    let _ = (
        level.price(),
        level.visible_quantity(),
        level.hidden_quantity(),
        level.total_quantity(),
        level.order_count(),
    );
    let st = level.stats();
    let _ = (
        st.orders_added(),
        st.orders_removed(),
        st.orders_executed(),
        st.quantity_executed(),
        st.value_executed(),
        st.average_execution_price(),
        st.average_waiting_time(),
        st.time_since_last_execution(),
    );
    let _ = st.to_string();
    let _ = serde_json::to_string(&*st);
    let _ = format!("{level:?}");
}

// ---------------------------------------------------------------------------------------------

#[derive(Clone, Debug, PartialEq, Eq)]
pub enum ImplRes {
    Added,
    Matched(MatchObs),
    Updated(UpdObs),
    Restored,
    /// macro letters: how many of the sub-operations succeeded
    Count(u64),
    /// the call did not return within the step budget
    NoReturn,
    Panicked(String),
    RestoreFailed(String),
}

impl ImplRes {
    pub fn describe(&self) -> String {
        match self {
            ImplRes::Added => "added".into(),
            ImplRes::Matched(m) => m.describe(),
            ImplRes::Updated(u) => u.describe(),
            ImplRes::Restored => "restored".into(),
            ImplRes::Count(n) => format!("{n} sub-operations succeeded"),
            ImplRes::NoReturn => "call did not return within its step budget (5000 + 4 x queued tickets + 40 x resting orders)".to_string(),
            ImplRes::Panicked(m) => format!("panicked: {m}"),
            ImplRes::RestoreFailed(m) => format!("restore failed: {m}"),
        }
    }
}

pub struct Run<'a> {
    pub cfg: &'a LevelCfg,
    pub rec: &'a Recorder,
    pub level: PriceLevel,
    pub generator: UuidGenerator,
    pub queue_obj: u64,
    pub tx_issued: u64,
    pub models: Vec<Option<ModelLevel>>,
    // counters derived from what the implementation itself returned (C15)
    pub n_added: u64,
    pub n_removed: u64,
    pub q_executed: u128,
    pub noisy: bool,
    /// raw result of the last match (for C02's per-transaction predicates)
    pub last_match: Option<MatchResult>,
}

impl<'a> Run<'a> {
    pub fn new(cfg: &'a LevelCfg, rec: &'a Recorder, alive: u8, noisy: bool) -> Self {
        rec.reset();
        let level = PriceLevel::new(cfg.price);
        let queue_obj = rec.last_queue().unwrap_or(u64::MAX);
        let generator = UuidGenerator::new(NS);
        let models = cfg
            .variants
            .iter()
            .enumerate()
            .map(|(i, (a, b))| {
                if alive & (1 << i) != 0 {
                    Some(ModelLevel::new(cfg.price, *a, *b))
                } else {
                    None
                }
            })
            .collect();
        Run {
            cfg,
            rec,
            level,
            generator,
            queue_obj,
            tx_issued: 0,
            models,
            n_added: 0,
            n_removed: 0,
            q_executed: 0,
            noisy,
            last_match: None,
        }
    }

    pub fn tickets(&self) -> Vec<u128> {
        self.rec
            .tickets_of(self.queue_obj)
            .iter()
            .map(|b| {
                let mut hi = [0u8; 8];
                hi.copy_from_slice(&b[..8]);
                let mut lo = [0u8; 8];
                lo.copy_from_slice(&b[8..]);
                if u64::from_be_bytes(lo) == 0 {
                    u64::from_be_bytes(hi) as u128
                } else {
                    u128::from_be_bytes(*b)
                }
            })
            .collect()
    }

    /// step budget of one call: generous for what a legitimate call needs in this state (every queued ticket may
    /// have to be popped, every resting order visited), still finite
    pub fn call_budget(&self) -> u64 {
        let tickets = self.rec.tickets_of(self.queue_obj).len() as u64;
        let orders = self.level.order_count() as u64;
        CALL_BUDGET + 4 * tickets + 40 * orders.min(1_000_000)
    }

    /// applies `op` to the implementation and to every alive model; returns what each said
    pub fn apply(&mut self, op: &Op) -> (ImplRes, Vec<Option<ImplRes>>) {
        let cfg = self.cfg;
        let budget = self.call_budget();
        let res = match op {
            Op::Add(id, t) => {
                let o = cfg.make_order(*id, *t);
                let r = self.rec.with_budget(budget, || {
                    self.level.add_order(o);
                });
                match r {
                    Ok(()) => {
                        self.n_added += 1;
                        ImplRes::Added
                    }
                    Err(BudgetOrPanic::Budget) => ImplRes::NoReturn,
                    Err(BudgetOrPanic::Panic(m)) => ImplRes::Panicked(m),
                }
            }
            Op::Match(q) => {
                let r = self.rec.with_budget(budget, || {
                    self.level.match_order(*q, oid(cfg.taker), &self.generator)
                });
                match r {
                    Ok(mr) => {
                        let obs = match_obs(&mr);
                        self.tx_issued += mr.transactions.len() as u64;
                        self.q_executed += obs.executed();
                        self.last_match = Some(mr);
                        ImplRes::Matched(obs)
                    }
                    Err(BudgetOrPanic::Budget) => ImplRes::NoReturn,
                    Err(BudgetOrPanic::Panic(m)) => ImplRes::Panicked(m),
                }
            }
            Op::Upd(k, id) => {
                let u = cfg.update_of(*k, *id);
                let r = self
                    .rec
                    .with_budget(budget, || self.level.update_order(u));
                match r {
                    Ok(ur) => {
                        let obs = upd_obs(&ur);
                        let removal = matches!(
                            k,
                            UpdKind::Cancel
                                | UpdKind::Move
                                | UpdKind::PqMove(_)
                                | UpdKind::ReplaceMove(_)
                        );
                        if removal && matches!(obs, UpdObs::Order(_)) {
                            self.n_removed += 1;
                        }
                        ImplRes::Updated(obs)
                    }
                    Err(BudgetOrPanic::Budget) => ImplRes::NoReturn,
                    Err(BudgetOrPanic::Panic(m)) => ImplRes::Panicked(m),
                }
            }
            Op::BulkAdd(n) => {
                let price = cfg.price;
                let r = self.rec.with_budget(budget * 10, || {
                    for i in 0..*n {
                        self.level.add_order(bulk_order(i, price));
                    }
                });
                match r {
                    Ok(()) => {
                        self.n_added += *n;
                        ImplRes::Count(*n)
                    }
                    Err(BudgetOrPanic::Budget) => ImplRes::NoReturn,
                    Err(BudgetOrPanic::Panic(m)) => ImplRes::Panicked(m),
                }
            }
            Op::BulkDormant(n) => {
                let price = cfg.price;
                let r = self.rec.with_budget(budget * 10, || {
                    for i in 0..*n {
                        self.level.add_order(dormant_order(i, price));
                    }
                });
                match r {
                    Ok(()) => {
                        self.n_added += *n;
                        ImplRes::Count(*n)
                    }
                    Err(BudgetOrPanic::Budget) => ImplRes::NoReturn,
                    Err(BudgetOrPanic::Panic(m)) => ImplRes::Panicked(m),
                }
            }
            Op::BulkCancel(k) => {
                let r = self.rec.with_budget(budget * 10, || {
                    let mut ok = 0u64;
                    for i in 0..*k {
                        if let Ok(Some(_)) = self.level.update_order(OrderUpdate::Cancel { order_id: oid(100 + i) }) {
                            ok += 1;
                        }
                    }
                    ok
                });
                match r {
                    Ok(ok) => {
                        self.n_removed += ok;
                        ImplRes::Count(ok)
                    }
                    Err(BudgetOrPanic::Budget) => ImplRes::NoReturn,
                    Err(BudgetOrPanic::Panic(m)) => ImplRes::Panicked(m),
                }
            }
            Op::Quotes(n) => {
                let price = cfg.price;
                let r = self.rec.with_budget(budget * 40, || {
                    let mut ok = 0u64;
                    for _ in 0..*n {
                        self.level.add_order(set_id_ts(&bulk_order(0, price), oid(500), 5000));
                        if let Ok(Some(_)) = self.level.update_order(OrderUpdate::Cancel { order_id: oid(500) }) {
                            ok += 1;
                        }
                    }
                    ok
                });
                match r {
                    Ok(ok) => {
                        self.n_added += *n;
                        self.n_removed += ok;
                        ImplRes::Count(ok)
                    }
                    Err(BudgetOrPanic::Budget) => ImplRes::NoReturn,
                    Err(BudgetOrPanic::Panic(m)) => ImplRes::Panicked(m),
                }
            }
            Op::Churn(id, k) => {
                let r = self.rec.with_budget(budget * 40, || {
                    let mut ok = 0u64;
                    for _ in 0..*k {
                        if let Ok(Some(_)) = self.level.update_order(OrderUpdate::UpdateQuantity { order_id: oid(*id), new_quantity: 1 }) {
                            ok += 1;
                        }
                    }
                    ok
                });
                match r {
                    Ok(ok) => ImplRes::Count(ok),
                    Err(BudgetOrPanic::Budget) => ImplRes::NoReturn,
                    Err(BudgetOrPanic::Panic(m)) => ImplRes::Panicked(m),
                }
            }
            Op::Restore(p) => {
                let r = self
                    .rec
                    .with_budget(budget * 10, || rebuild_via(&self.level, *p));
                match r {
                    Ok(Ok(l)) => {
                        self.level = l;
                        self.queue_obj = self.rec.last_queue().unwrap_or(u64::MAX);
                        // what a rebuilt level's statistics start from is not specified: the events since the
                        // rebuild are counted on top of whatever it reports now
                        let st = self.level.stats();
                        self.n_added = st.orders_added() as u64;
                        self.n_removed = st.orders_removed() as u64;
                        self.q_executed = st.quantity_executed() as u128;
                        ImplRes::Restored
                    }
                    Ok(Err(m)) => ImplRes::RestoreFailed(m),
                    Err(BudgetOrPanic::Budget) => ImplRes::NoReturn,
                    Err(BudgetOrPanic::Panic(m)) => ImplRes::Panicked(m),
                }
            }
        };
        if self.noisy {
            // a read-only call that panics (e.g. total_quantity on wrapped counters) must not take the worker down
            let _ = std::panic::catch_unwind(std::panic::AssertUnwindSafe(|| read_battery(&self.level)));
        }
        let mut mres = vec![];
        for m in self.models.iter_mut() {
            mres.push(m.as_mut().map(|m| match op {
                Op::Add(id, t) => {
                    m.add(cfg.make_order(*id, *t));
                    ImplRes::Added
                }
                Op::Match(q) => ImplRes::Matched(m.do_match(*q)),
                Op::Upd(k, id) => ImplRes::Updated(m.update(&cfg.update_of(*k, *id))),
                Op::BulkAdd(n) => {
                    for i in 0..*n {
                        m.add(bulk_order(i, cfg.price));
                    }
                    ImplRes::Count(*n)
                }
                Op::BulkDormant(n) => {
                    for i in 0..*n {
                        m.add(dormant_order(i, cfg.price));
                    }
                    ImplRes::Count(*n)
                }
                Op::BulkCancel(k) => {
                    let mut ok = 0;
                    for i in 0..*k {
                        if let UpdObs::Order(_) = m.update(&OrderUpdate::Cancel { order_id: oid(100 + i) }) {
                            ok += 1;
                        }
                    }
                    ImplRes::Count(ok)
                }
                Op::Quotes(n) => {
                    let mut ok = 0;
                    for _ in 0..*n {
                        m.add(set_id_ts(&bulk_order(0, cfg.price), oid(500), 5000));
                        if let UpdObs::Order(_) = m.update(&OrderUpdate::Cancel { order_id: oid(500) }) {
                            ok += 1;
                        }
                    }
                    ImplRes::Count(ok)
                }
                Op::Churn(id, k) => {
                    let mut ok = 0;
                    for _ in 0..*k {
                        if let UpdObs::Order(_) = m.update(&OrderUpdate::UpdateQuantity { order_id: oid(*id), new_quantity: 1 }) {
                            ok += 1;
                        }
                    }
                    ImplRes::Count(ok)
                }
                Op::Restore(_) => {
                    // a rebuilt level holds the listed orders, re-queued in listing order
                    // (canonical id order, stable-sorted by timestamp = the seam's identity permutation)
                    let mut l = m.canonical_orders();
                    l.sort_by_key(|o| rec(o).ts);
                    *m = ModelLevel::rebuild(m.price, m.kf1, m.kf2, &l);
                    ImplRes::Restored
                }
            }));
        }
        (res, mres)
    }

    pub fn drain(&mut self) -> ImplRes {
        let budget = self.call_budget();
        let r = self.rec.with_budget(budget, || {
            self.level
                .match_order(DRAIN_QTY, oid(TAKER + 1), &self.generator)
        });
        match r {
            Ok(mr) => ImplRes::Matched(match_obs(&mr)),
            Err(BudgetOrPanic::Budget) => ImplRes::NoReturn,
            Err(BudgetOrPanic::Panic(m)) => ImplRes::Panicked(m),
        }
    }
}

#[derive(Clone, Copy, Debug, PartialEq, Eq)]
pub struct Aux {
    pub alive: u8,
    pub resting: u16,
}

pub struct LevelSubject {
    pub cfg: LevelCfg,
}

pub struct Exec {
    pub pre: LevelObs,
    pub res: ImplRes,
    pub mres: Vec<Option<ImplRes>>,
    pub post: LevelObs,
    pub tickets: Vec<u128>,
    pub model_after: Vec<Option<ModelLevel>>,
    pub stats: (usize, usize, u64, u64),
    pub counters: (u64, u64, u128),
    pub last_match: Option<MatchResult>,
    pub tx_before: u64,
    pub drain: Option<ImplRes>,
    pub model_drain: Vec<Option<MatchObs>>,
    pub post_drain: Option<LevelObs>,
    pub mirror_errors: u64,
    pub snapshot_fields: (u64, u64, u64, usize, u64),
    pub level_for_rebuild: Option<PriceLevel>,
}

impl LevelSubject {
    pub fn exec(
        &self,
        rec: &Recorder,
        hist: &[u16],
        op: &Op,
        alive: u8,
        noisy: bool,
        keep_level: bool,
    ) -> Exec {
        let cfg = &self.cfg;
        let mut run = Run::new(cfg, rec, alive, noisy);
        for h in hist {
            let _ = run.apply(&cfg.ops[*h as usize]);
        }
        let pre = observe(&run.level);
        let tx_before = run.tx_issued;
        let (res, mres) = run.apply(op);
        let post = observe(&run.level);
        let tickets = run.tickets();
        let model_after = run.models.clone();
        let st = run.level.stats();
        let stats = (
            st.orders_added(),
            st.orders_removed(),
            st.quantity_executed(),
            st.value_executed(),
        );
        let snap = run.level.snapshot();
        let snapshot_fields = (
            snap.price,
            snap.visible_quantity,
            snap.hidden_quantity,
            snap.order_count,
            std::panic::catch_unwind(std::panic::AssertUnwindSafe(|| run.level.total_quantity()))
                .unwrap_or(u64::MAX),
        );
        let counters = (run.n_added, run.n_removed, run.q_executed);
        let last_match = run.last_match.clone();
        let mirror_errors = rec.st.mirror_errors.get();
        let ok = matches!(
            res,
            ImplRes::Added | ImplRes::Matched(_) | ImplRes::Updated(_) | ImplRes::Restored | ImplRes::Count(_)
        );
        let mut drain = None;
        let mut model_drain = vec![];
        let mut post_drain = None;
        let mut level_for_rebuild = None;
        if keep_level && ok {
            // the level is handed out instead of being drained
            level_for_rebuild = Some(std::mem::replace(&mut run.level, PriceLevel::new(cfg.price)));
        } else if cfg.check.drain && ok {
            drain = Some(run.drain());
            post_drain = Some(observe(&run.level));
            for m in run.models.iter_mut() {
                model_drain.push(m.as_mut().map(|m| m.do_match(DRAIN_QTY)));
            }
        }
        Exec {
            pre,
            res,
            mres,
            post,
            tickets,
            model_after,
            stats,
            counters,
            last_match,
            tx_before,
            drain,
            model_drain,
            post_drain,
            mirror_errors,
            snapshot_fields,
            level_for_rebuild,
        }
    }

    fn resting_after(&self, post: &LevelObs) -> u16 {
        let mut m = 0u16;
        for o in &post.orders {
            let n = rec(o).id;
            if let Some(k) = alphabet_id(n) {
                m |= 1 << k;
            } else if (100..300).contains(&n) {
                m |= 1;
            } else if (300..1000).contains(&n) {
                m |= 1 << 15;
            }
        }
        m
    }
}

fn variant_switches(v: (bool, bool)) -> Vec<&'static str> {
    let mut s = vec![];
    if v.0 {
        s.push("requeue_partial_fill_at_tail");
    }
    if v.1 {
        s.push("stale_ticket_keeps_position");
    }
    s
}

impl Subject for LevelSubject {
    type Aux = Aux;
    type Ctx = Recorder;

    fn make_ctx(&self) -> Recorder {
        Recorder::install()
    }
    fn num_ops(&self) -> usize {
        self.cfg.ops.len()
    }
    fn op_name(&self, op: u16) -> String {
        self.cfg.op_name(&self.cfg.ops[op as usize])
    }
    fn initial_aux(&self) -> Aux {
        Aux {
            alive: ((1u16 << self.cfg.variants.len()) - 1) as u8,
            resting: 0,
        }
    }

    fn step(
        &self,
        rcd: &mut Recorder,
        hist: &[u16],
        aux: &Aux,
        opi: u16,
        seen: &dyn Fn(u128) -> bool,
    ) -> StepOut<Aux> {
        // the clock seam covers the whole replayed history, from the construction of the level on
        struct ClockGuard(Option<crate::clock::VClock>);
        impl Drop for ClockGuard {
            fn drop(&mut self) {
                crate::clock::restore(self.0);
            }
        }
        let _clock = self.cfg.clock_step_ms.map(|ms| ClockGuard(crate::clock::set(Some(ms as i128 * 1_000_000))));
        self.step_clocked(rcd, hist, aux, opi, seen)
    }
}

impl LevelSubject {
    fn step_clocked(
        &self,
        rcd: &mut Recorder,
        hist: &[u16],
        aux: &Aux,
        opi: u16,
        seen: &dyn Fn(u128) -> bool,
    ) -> StepOut<Aux> {
        let cfg = &self.cfg;
        let ck = &cfg.check;
        let op = cfg.ops[opi as usize];
        // enabledness
        let is_resting = |id: u64| aux.resting & (1 << id) != 0;
        match op {
            Op::Add(id, _) => {
                if is_resting(id) || (aux.resting.count_ones() as usize) >= cfg.max_orders {
                    return StepOut::disabled(*aux);
                }
            }
            Op::Upd(_, id) => {
                if !is_resting(id) && !cfg.absent_ops {
                    return StepOut::disabled(*aux);
                }
            }
            Op::BulkAdd(_) => {
                // bit 0 of the mask: some bulk id (#100..) is resting
                if aux.resting & 1 != 0 {
                    return StepOut::disabled(*aux);
                }
            }
            Op::BulkCancel(_) => {
                if aux.resting & 1 == 0 {
                    return StepOut::disabled(*aux);
                }
            }
            Op::BulkDormant(_) => {
                // bit 15: some dormant bulk id (#300..) is resting
                if aux.resting & (1 << 15) != 0 {
                    return StepOut::disabled(*aux);
                }
            }
            Op::Churn(id, _) => {
                if !is_resting(id) {
                    return StepOut::disabled(*aux);
                }
            }
            _ => {}
        }
        let e = self.exec(rcd, hist, &op, aux.alive, false, false);
        let mut out = StepOut {
            enabled: true,
            key: 0,
            aux: *aux,
            extend: true,
            violations: vec![],
            known: vec![],
            outcome: 0,
            nontrivial: false,
            extra_exec: hist.len() as u64,
        };
        let prop = cfg.prop.as_str();
        let mut vio = |out: &mut StepOut<Aux>, m: String| {
            out.violations.push(m);
            out.extend = false;
        };

        if e.mirror_errors > 0 {
            vio(
                &mut out,
                "machinery: ticket mirror out of sync with the hook events".into(),
            );
        }

        // --- calls that did not come back
        match &e.res {
            ImplRes::NoReturn => {
                if ck.c06 || matches!(op, Op::Match(_)) {
                    vio(
                        &mut out,
                        format!(
                            "{}: {} (state before: {})",
                            if ck.c06 { "C06 termination" } else { "non-termination" },
                            e.res.describe(),
                            e.pre.describe()
                        ),
                    );
                }
                out.extend = false;
                out.key = hash128(&("noreturn", hist, opi));
                return out;
            }
            ImplRes::Panicked(m) => {
                vio(
                    &mut out,
                    format!("call panicked: {m} (state before: {})", e.pre.describe()),
                );
                out.key = hash128(&("panic", hist, opi));
                return out;
            }
            ImplRes::RestoreFailed(m) => {
                if ck.c10 || ck.c01 {
                    vio(
                        &mut out,
                        format!(
                            "rebuild of a level from its own form failed: {m} (state: {})",
                            e.pre.describe()
                        ),
                    );
                }
                out.extend = false;
                out.key = hash128(&("restorefail", hist, opi));
                return out;
            }
            _ => {}
        }

        // --- C01
        if ck.c01 {
            if let Err(m) = e.post.aggregates_consistent() {
                vio(&mut out, format!("C01 {m}; after the call: {}", e.post.describe()));
            }
            let (sp, sv, sh, sc, tot) = e.snapshot_fields;
            if sp != e.post.price || sv != e.post.vis || sh != e.post.hid || sc != e.post.count {
                vio(
                    &mut out,
                    format!(
                        "C01 snapshot fields ({sp},{sv},{sh},{sc}) differ from the level's aggregates ({},{},{},{})",
                        e.post.price, e.post.vis, e.post.hid, e.post.count
                    ),
                );
            }
            if tot as u128 != e.post.vis as u128 + e.post.hid as u128 {
                vio(
                    &mut out,
                    format!(
                        "C01 total_quantity {} != visible {} + hidden {}",
                        tot, e.post.vis, e.post.hid
                    ),
                );
            }
        }

        // --- C02 / C06 / "never trades afterwards"
        if let (Op::Match(q), ImplRes::Matched(m)) = (&op, &e.res) {
            let q = *q;
            if ck.c02 {
                let mr = e.last_match.as_ref().unwrap();
                if m.executed() + m.remaining as u128 != q as u128 {
                    vio(
                        &mut out,
                        format!(
                            "C02 executed {} + remaining {} != requested {}",
                            m.executed(),
                            m.remaining,
                            q
                        ),
                    );
                }
                if m.complete != (m.remaining == 0) {
                    vio(
                        &mut out,
                        format!("C02 is_complete={} but remaining={}", m.complete, m.remaining),
                    );
                }
                if mr.executed_quantity() as u128 != m.executed() {
                    vio(&mut out, "C02 executed_quantity() != sum of transactions".into());
                }
                if mr.order_id != oid(cfg.taker) {
                    vio(&mut out, "C02 result carries a different taker id".into());
                }
                for (k, t) in mr.transactions.as_vec().iter().enumerate() {
                    let maker = e.pre.find(t.maker_order_id);
                    if t.quantity == 0 {
                        vio(&mut out, format!("C02 transaction {k} has quantity 0"));
                    }
                    if t.price != cfg.price {
                        vio(
                            &mut out,
                            format!("C02 transaction {k} price {} != level price {}", t.price, cfg.price),
                        );
                    }
                    if t.taker_order_id != oid(cfg.taker) {
                        vio(&mut out, format!("C02 transaction {k} has a wrong taker id"));
                    }
                    match maker {
                        None => vio(
                            &mut out,
                            format!(
                                "C02 transaction {k} names maker {} which was not resting before the call",
                                idname(t.maker_order_id)
                            ),
                        ),
                        Some(mo) => {
                            let expect = match o_side(mo) {
                                Side::Buy => Side::Sell,
                                Side::Sell => Side::Buy,
                            };
                            if t.taker_side != expect {
                                vio(
                                    &mut out,
                                    format!("C02 transaction {k} taker side is not opposite to the maker's side"),
                                );
                            }
                        }
                    }
                    let expect_id =
                        Uuid::new_v5(&NS, (e.tx_before + k as u64).to_string().as_bytes());
                    if t.transaction_id != expect_id {
                        vio(
                            &mut out,
                            format!("C02 transaction {k} id is not the generator's next unused id"),
                        );
                    }
                }
                // per maker conservation
                let mut makers: Vec<u128> = m.fills.iter().map(|f| f.0).collect();
                makers.sort();
                makers.dedup();
                let mut left = vec![];
                for mk in &makers {
                    let sum: u128 = m.fills.iter().filter(|f| f.0 == *mk).map(|f| f.1 as u128).sum();
                    let before = e.pre.orders.iter().find(|o| rec(o).id == *mk);
                    let after = e.post.orders.iter().find(|o| rec(o).id == *mk);
                    let Some(before) = before else { continue };
                    let tb = o_tot(before);
                    match after {
                        Some(a) => {
                            if tb != sum + o_tot(a) {
                                vio(&mut out, format!(
                                    "C02 maker #{mk}: total before {tb} != executed {sum} + total after {} (before {}, after {})",
                                    o_tot(a), short(before), short(a)));
                            }
                        }
                        None => {
                            left.push(*mk);
                            let r = rec(before);
                            let manual_reserve = r.kind == 6 && r.p4 == 0;
                            let ok = tb == sum || (manual_reserve && tb == sum + r.hid as u128);
                            if !ok {
                                vio(&mut out, format!(
                                    "C02 maker #{mk} left the book: total before {tb} != executed {sum} (before {})",
                                    short(before)));
                            }
                        }
                    }
                }
                // untouched orders keep their quantities
                for b in &e.pre.orders {
                    let idb = rec(b).id;
                    if makers.contains(&idb) {
                        continue;
                    }
                    if let Some(a) = e.post.orders.iter().find(|o| rec(o).id == idb) {
                        if o_tot(a) != o_tot(b) {
                            vio(&mut out, format!(
                                "C02 order #{idb} did not trade but its total changed ({} -> {})",
                                short(b), short(a)));
                        }
                    }
                }
                let mut f = m.filled.clone();
                f.sort();
                let dup = f.windows(2).any(|w| w[0] == w[1]);
                if dup || f != left {
                    vio(&mut out, format!(
                        "C02 filled_order_ids {:?} != makers that traded and left the book {:?}",
                        m.filled, left));
                }
            }
            if ck.c06 {
                if m.remaining > 0 {
                    if let Some(o) = e.post.orders.iter().find(|o| o_vis(o) > 0) {
                        vio(&mut out, format!(
                            "C06 match returned with {} remaining although {} still displays quantity",
                            m.remaining, short(o)));
                    }
                }
                let avail = e.pre.sum_vis();
                if m.executed() < avail.min(q as u128) {
                    vio(&mut out, format!(
                        "C06 executed {} < min(requested {}, displayed before {})",
                        m.executed(), q, avail));
                }
            }
            if ck.c07 {
                for (mk, _) in &m.fills {
                    if !e.pre.orders.iter().any(|o| rec(o).id == *mk) {
                        vio(&mut out, format!(
                            "C07 order #{mk} traded although it was not resting (cancelled / moved earlier)"));
                    }
                }
            }
        }

        // --- model agreement
        let is_upd = matches!(op, Op::Upd(..) | Op::BulkCancel(_) | Op::Churn(..) | Op::Quotes(_));
        let mut new_alive = 0u8;
        let mut disagreements: Vec<String> = vec![];
        for (i, v) in cfg.variants.iter().enumerate() {
            if aux.alive & (1 << i) == 0 {
                continue;
            }
            let m_after = e.model_after[i].as_ref().unwrap();
            let mut agree = true;
            let mut why = String::new();
            if e.mres[i].as_ref() != Some(&e.res) {
                agree = false;
                why = format!(
                    "result: model[{}] expects {} / implementation {}",
                    m_after.name(),
                    e.mres[i].as_ref().map(|r| r.describe()).unwrap_or_default(),
                    e.res.describe()
                );
            } else if !same_orders(&m_after.canonical_orders(), &e.post.orders) {
                agree = false;
                why = format!(
                    "resting orders: model[{}] [{}] / implementation [{}]",
                    m_after.name(),
                    m_after
                        .canonical_orders()
                        .iter()
                        .map(short)
                        .collect::<Vec<_>>()
                        .join(", "),
                    e.post.orders.iter().map(short).collect::<Vec<_>>().join(", ")
                );
            } else if let (Some(ImplRes::Matched(d)), Some(Some(md))) =
                (e.drain.as_ref(), e.model_drain.get(i))
            {
                if d != md {
                    agree = false;
                    why = format!(
                        "draining match afterwards: model[{}] expects {} / implementation {}",
                        m_after.name(),
                        md.describe(),
                        d.describe()
                    );
                }
            } else if let Some(d) = e.drain.as_ref() {
                if !matches!(d, ImplRes::Matched(_)) {
                    agree = false;
                    why = format!("draining match afterwards: {}", d.describe());
                }
            }
            let _ = v;
            if agree {
                new_alive |= 1 << i;
            } else {
                disagreements.push(why);
            }
        }
        if let Some(d) = e.drain.as_ref() {
            if !matches!(d, ImplRes::Matched(_)) && ck.c06 {
                vio(&mut out, format!("C06 draining match: {}", d.describe()));
            }
        }
        out.aux.alive = new_alive;
        let nvar = cfg.variants.len();
        if ck.c04 {
            let min_variant = |mask: u8| -> Option<usize> {
                (0..nvar)
                    .filter(|i| mask & (1 << i) != 0)
                    .min_by_key(|i| {
                        let v = cfg.variants[*i];
                        (v.0 as u8 + v.1 as u8, *i)
                    })
            };
            match min_variant(new_alive) {
                None => {
                    if !is_upd && !matches!(op, Op::Add(..) | Op::BulkAdd(_) | Op::BulkDormant(_)) || e.drain.is_some() {
                        vio(&mut out, format!(
                            "C04 time priority: the implementation matches neither the ideal model nor any known-deviation variant; {}; state before: {} tickets-after={:?}",
                            disagreements.join(" | "), e.pre.describe(), e.tickets));
                    }
                    out.extend = false;
                }
                Some(mv) => {
                    let before = min_variant(aux.alive);
                    if Some(mv) != before {
                        let sw = variant_switches(cfg.variants[mv]);
                        let mut all_open = true;
                        for s in &sw {
                            if !cfg.known.is_open(prop, s) {
                                all_open = false;
                            }
                        }
                        let why = disagreements.first().cloned().unwrap_or_default();
                        if all_open && !sw.is_empty() {
                            // attribute to the switches that were not needed before
                            let prev: Vec<&str> = before
                                .map(|b| variant_switches(cfg.variants[b]))
                                .unwrap_or_default();
                            for s in sw.iter().filter(|s| !prev.contains(s)) {
                                out.known.push((
                                    s.to_string(),
                                    format!("[{}] {}", cfg.variants[mv].0 as u8 * 1 + cfg.variants[mv].1 as u8 * 2, why),
                                ));
                            }
                        } else {
                            vio(&mut out, format!(
                                "C04 time priority: deviation from the ideal model that is not an open known finding ({:?}); {}",
                                sw, why));
                        }
                    }
                }
            }
        } else if new_alive == 0 && !cfg.variants.is_empty() {
            // the tracking model lost the implementation
            if ck.c07 && is_upd {
                vio(&mut out, format!(
                    "C07 update result / effect differs from the specification: {}; state before: {}",
                    disagreements.join(" | "), e.pre.describe()));
            }
            out.extend = false;
        }

        // --- C07 model-independent predicates
        if ck.c07 {
            if let (Op::Upd(k, id), ImplRes::Updated(u)) = (&op, &e.res) {
                let oidv = oid(*id);
                let present = e.pre.find(oidv).copied();
                let others_same = |post: &LevelObs, pre: &LevelObs| {
                    let a: Vec<Rec> = post.orders.iter().filter(|o| !same_id(o_id(o), oidv)).map(rec).collect();
                    let b: Vec<Rec> = pre.orders.iter().filter(|o| !same_id(o_id(o), oidv)).map(rec).collect();
                    a == b
                };
                let removal = matches!(
                    k,
                    UpdKind::Cancel | UpdKind::Move | UpdKind::PqMove(_) | UpdKind::ReplaceMove(_)
                );
                if !others_same(&e.post, &e.pre) {
                    vio(&mut out, format!(
                        "C07 an update of #{id} changed another order: before {} / after {}",
                        e.pre.describe(), e.post.describe()));
                }
                match (present, k) {
                    (_, UpdKind::RepriceSame) => {
                        if *u != UpdObs::Rejected || e.post != e.pre {
                            vio(&mut out, format!(
                                "C07 price update to the level's own price: result {} / state changed: {}",
                                u.describe(), e.post != e.pre));
                        }
                    }
                    (None, _) => {
                        if *u != UpdObs::NotFound || e.post != e.pre {
                            vio(&mut out, format!(
                                "C07 update of an id that is not resting: result {} / state changed: {}",
                                u.describe(), e.post != e.pre));
                        }
                    }
                    (Some(p), _) if removal => {
                        if *u != UpdObs::Order(p) {
                            vio(&mut out, format!(
                                "C07 removal returned {} but the resting order was {}",
                                u.describe(), short(&p)));
                        }
                        if e.post.find(oidv).is_some() {
                            vio(&mut out, format!("C07 #{id} still listed after its removal"));
                        }
                    }
                    (Some(p), _) => {
                        // same-price amendment
                        let n = match k {
                            UpdKind::Amend(n) | UpdKind::PqSame(n) | UpdKind::ReplaceSame(n) => *n,
                            _ => 0,
                        };
                        let now = e.post.find(oidv).copied();
                        match (u, now) {
                            (UpdObs::Order(r), Some(now)) => {
                                if !same_order(r, &now) {
                                    vio(&mut out, format!(
                                        "C07 amendment returned {} but {} now rests",
                                        short(r), short(&now)));
                                }
                                let (rp, rn) = (rec(&p), rec(&now));
                                let ident_same = Rec { vis: 0, hid: 0, ..rp } == Rec { vis: 0, hid: 0, ..rn };
                                if !ident_same {
                                    vio(&mut out, format!(
                                        "C07 amendment changed identity fields: {} -> {}",
                                        short(&p), short(&now)));
                                }
                                if matches!(rp.kind, 0 | 1 | 2) && (rn.vis != n || rn.hid != rp.hid) {
                                    vio(&mut out, format!(
                                        "C07 amendment to {n}: {} -> {}",
                                        short(&p), short(&now)));
                                }
                            }
                            _ => vio(&mut out, format!(
                                "C07 amendment of resting #{id}: result {} / listed afterwards: {}",
                                u.describe(), now.is_some())),
                        }
                    }
                }
            }
        }

        // --- C15
        if ck.c15 {
            let (a, r, q, v) = e.stats;
            let (ea, er, eq) = e.counters;
            if a as u64 != ea || r as u64 != er || q as u128 != eq || v as u128 != eq * cfg.price as u128 {
                vio(&mut out, format!(
                    "C15 statistics (added={a}, removed={r}, qty={q}, value={v}) != events (added={ea}, removed={er}, qty={eq}, value={})",
                    eq * cfg.price as u128));
            }
        }

        // --- state key
        let recs: Vec<Rec> = e.post.orders.iter().map(rec).collect();
        let mut model_keys = vec![];
        for (i, m) in e.model_after.iter().enumerate() {
            if new_alive & (1 << i) != 0 {
                model_keys.push(m.as_ref().unwrap().state_key());
            }
        }
        let stats_part = if cfg.stats_in_key { Some(e.stats) } else { None };
        out.key = hash128(&(
            &e.tickets,
            &recs,
            e.post.vis,
            e.post.hid,
            e.post.count,
            stats_part,
            new_alive,
            &model_keys,
        ));
        out.aux.resting = self.resting_after(&e.post);
        out.outcome = hash64(&(format!("{:?}", e.res), &recs, e.post.vis, e.post.hid));
        out.nontrivial = e.post.orders.len() >= 2
            || e.post.orders.iter().any(|o| {
                !cfg.templates.iter().any(|t| {
                    let a = rec(&t.1);
                    let b = rec(o);
                    a.vis == b.vis && a.hid == b.hid && a.kind == b.kind
                })
            });

        // --- per-state checks on new states only
        let is_new = !seen(out.key);
        if is_new && out.extend {
            if ck.twin {
                let t = self.exec(rcd, hist, &op, 0, true, false);
                out.extra_exec += hist.len() as u64 + 1;
                if t.res != e.res || t.post != e.post || t.drain != e.drain || t.tickets != e.tickets || t.stats != e.stats {
                    vio(&mut out, format!(
                        "C07 purity: the same history with read-only calls after every operation gives a different result: quiet [{} / {} / drain {:?}] vs with reads [{} / {} / drain {:?}]",
                        e.res.describe(), e.post.describe(), e.drain.as_ref().map(|d| d.describe()),
                        t.res.describe(), t.post.describe(), t.drain.as_ref().map(|d| d.describe())));
                }
            }
            if ck.c11 {
                let c = crate::c11::check_state(self, rcd, hist, &op, &e);
                out.extra_exec += c.extra;
                for m in c.violations {
                    vio(&mut out, m);
                }
                out.known.extend(c.known);
            }
            if ck.c10 {
                let x = self.exec(rcd, hist, &op, 0, false, true);
                out.extra_exec += hist.len() as u64 + 1;
                if let Some(level) = x.level_for_rebuild.as_ref() {
                    let (n, msgs) = check_c10_state(level, &x.post);
                    out.extra_exec += n;
                    for m in msgs {
                        vio(&mut out, m);
                    }
                }
            }
        }
        out
    }
}

fn factorial(n: usize) -> usize {
    (1..=n.min(8)).product::<usize>().max(1)
}

/// C10 checks in one state: every rebuild path x every permutation of the pre-sort listing, plus
/// inputs whose aggregate fields disagree with their orders.
pub fn check_c10_state(level: &PriceLevel, post: &LevelObs) -> (u64, Vec<String>) {
    use pricelevel::verif_hooks::set_listing_permutation;
    let mut msgs = vec![];
    let mut n = 0u64;
    let nperm = factorial(post.orders.len()).min(24);
    let content_ok = |r: &PriceLevel, what: &str, msgs: &mut Vec<String>| {
        set_listing_permutation(Some(0));
        let o = observe(r);
        if o.price != post.price || !same_orders(&o.orders, &post.orders) {
            msgs.push(format!(
                "C10 {what}: content differs: original {} / rebuilt price={} {}",
                post.describe(),
                o.price,
                o.describe()
            ));
        }
        if let Err(m) = o.aggregates_consistent() {
            msgs.push(format!("C10 {what}: rebuilt level: {m}"));
        }
        if (o.vis, o.hid, o.count) != (post.vis, post.hid, post.count) {
            msgs.push(format!(
                "C10 {what}: aggregates differ: original ({},{},{}) rebuilt ({},{},{})",
                post.vis, post.hid, post.count, o.vis, o.hid, o.count
            ));
        }
    };
    for p in 0..nperm {
        set_listing_permutation(Some(p));
        // listing: each resting id once, timestamps non-decreasing
        let listing = level.iter_orders();
        let mut ids: Vec<u128> = listing.iter().map(|o| idn(o_id(o))).collect();
        let ts: Vec<u64> = listing.iter().map(|o| rec(o).ts).collect();
        if ts.windows(2).any(|w| w[0] > w[1]) {
            msgs.push(format!("C10 listing not in non-decreasing timestamp order: {ts:?}"));
        }
        ids.sort();
        let mut want: Vec<u128> = post.orders.iter().map(|o| rec(o).id).collect();
        want.sort();
        if ids != want {
            msgs.push(format!("C10 listing ids {ids:?} != resting ids {want:?}"));
        }
        for path in ALL_PATHS {
            set_listing_permutation(Some(p));
            n += 1;
            match rebuild_via(level, path) {
                Ok(r) => content_ok(&r, &format!("{path:?} (listing permutation {p})"), &mut msgs),
                Err(m) => msgs.push(format!(
                    "C10 {path:?} (listing permutation {p}): rebuild failed: {m}; state {}",
                    post.describe()
                )),
            }
        }
    }
    set_listing_permutation(Some(0));
    // foreign aggregates: never believed
    let snap = level.snapshot();
    for (dv, dh, dc) in [
        (0u64, 0u64, 0usize),
        (snap.visible_quantity.wrapping_add(1), snap.hidden_quantity, snap.order_count),
        (snap.visible_quantity, snap.hidden_quantity.wrapping_add(1), snap.order_count),
        (snap.visible_quantity, snap.hidden_quantity, snap.order_count.wrapping_add(1)),
        (snap.visible_quantity.wrapping_sub(1), snap.hidden_quantity.wrapping_sub(1), snap.order_count.wrapping_sub(1)),
        (u64::MAX, u64::MAX, usize::MAX),
    ] {
        let bad = PriceLevelSnapshot {
            price: snap.price,
            visible_quantity: dv,
            hidden_quantity: dh,
            order_count: dc,
            orders: snap.orders.clone(),
        };
        let what = format!("foreign aggregates ({dv},{dh},{dc})");
        n += 4;
        match PriceLevel::from_snapshot(bad.clone()) {
            Ok(r) => content_ok(&r, &format!("from_snapshot with {what}"), &mut msgs),
            Err(e) => msgs.push(format!("C10 from_snapshot with {what} failed: {e}")),
        }
        content_ok(&PriceLevel::from(&bad), &format!("From<&Snapshot> with {what}"), &mut msgs);
        match PriceLevelSnapshotPackage::new(bad.clone()) {
            Ok(p) => match PriceLevel::from_snapshot_package(p) {
                Ok(r) => content_ok(&r, &format!("package built from {what}"), &mut msgs),
                Err(e) => msgs.push(format!("C10 package built from {what} does not validate: {e}")),
            },
            Err(e) => msgs.push(format!("C10 package from {what} failed: {e}")),
        }
        let data = PriceLevelData {
            price: snap.price,
            visible_quantity: dv,
            hidden_quantity: dh,
            order_count: dc,
            orders: snap.orders.iter().map(|o| **o).collect(),
        };
        // level JSON carrying the foreign aggregates
        if let Ok(j) = serde_json::to_string(&data) {
            match serde_json::from_str::<PriceLevel>(&j) {
                Ok(r) => content_ok(&r, &format!("level JSON with {what}"), &mut msgs),
                Err(e) => msgs.push(format!("C10 level JSON with {what} failed: {e}")),
            }
        }
        match PriceLevel::try_from(data) {
            Ok(r) => content_ok(&r, &format!("PriceLevelData with {what}"), &mut msgs),
            Err(e) => msgs.push(format!("C10 PriceLevelData with {what} failed: {e}")),
        }
        // text carrying the foreign aggregates
        let orders_str: Vec<String> = snap.orders.iter().map(|o| o.to_string()).collect();
        let text = format!(
            "PriceLevel:price={};visible_quantity={};hidden_quantity={};order_count={};orders=[{}]",
            snap.price,
            dv,
            dh,
            dc,
            orders_str.join(",")
        );
        match PriceLevel::from_str(&text) {
            Ok(r) => content_ok(&r, &format!("text with {what}"), &mut msgs),
            Err(e) => msgs.push(format!("C10 text with {what} failed: {e}")),
        }
        // a snapshot JSON with foreign aggregates wrapped in a package computed over it: the
        // constructor must either reject it or derive the aggregates
        if let Ok(pkg) = PriceLevelSnapshotPackage::new(snap.clone()) {
            let mut tampered = pkg.clone();
            tampered.snapshot.visible_quantity = dv;
            tampered.snapshot.hidden_quantity = dh;
            tampered.snapshot.order_count = dc;
            if let Ok(r) = PriceLevel::from_snapshot_package(tampered) {
                content_ok(&r, &format!("package with {what} edited in"), &mut msgs);
            }
        }
    }
    let _ = Arc::new(0);
    (n, msgs)
}
