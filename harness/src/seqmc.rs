//! Engine S: sequential explicit-state search (breadth-first, layer-synchronous, parallel).
//! A state is identified by the history reaching it (live levels cannot be cloned): every transition
//! replays its history on a fresh real object. De-duplication is on a 128-bit hash of the subject's
//! complete state key.

use std::collections::{BTreeMap, HashSet};
use std::sync::atomic::{AtomicBool, AtomicUsize, Ordering};
use std::time::{Duration, Instant};

pub struct StepOut<A> {
    pub enabled: bool,
    pub key: u128,
    pub aux: A,
    /// explore successors of this state (false after a violation)
    pub extend: bool,
    pub violations: Vec<String>,
    /// (signature, message)
    pub known: Vec<(String, String)>,
    /// fingerprint of what the implementation returned (distinct outcome count)
    pub outcome: u64,
    pub nontrivial: bool,
    /// implementation executions beyond the transition itself (continuations, rebuilds, twins)
    pub extra_exec: u64,
}

impl<A> StepOut<A> {
    pub fn disabled(aux: A) -> Self {
        StepOut {
            enabled: false,
            key: 0,
            aux,
            extend: false,
            violations: vec![],
            known: vec![],
            outcome: 0,
            nontrivial: false,
            extra_exec: 0,
        }
    }
}

pub trait Subject: Sync {
    type Aux: Clone + Send + Sync;
    /// per-worker-thread context (holds the thread-local recorder)
    type Ctx;
    fn make_ctx(&self) -> Self::Ctx;
    fn num_ops(&self) -> usize;
    fn op_name(&self, op: u16) -> String;
    fn initial_aux(&self) -> Self::Aux;
    /// `seen` tells whether a state key was already known before this layer started
    fn step(
        &self,
        ctx: &mut Self::Ctx,
        hist: &[u16],
        aux: &Self::Aux,
        op: u16,
        seen: &dyn Fn(u128) -> bool,
    ) -> StepOut<Self::Aux>;
}

#[derive(Clone, Debug)]
pub struct BfsConfig {
    pub max_depth: usize,
    pub wall_cap: Duration,
    pub state_cap: usize,
    pub threads: usize,
}

#[derive(Default, Debug)]
pub struct BfsResult {
    pub states: u64,
    pub transitions: u64,
    pub extra_exec: u64,
    pub depth_completed: usize,
    pub capped: Option<String>,
    pub distinct_outcomes: u64,
    pub nontrivial: u64,
    pub violations: Vec<(String, Vec<u16>)>,
    /// signature -> (first message, history, occurrences)
    pub known: BTreeMap<String, (String, Vec<u16>, u64)>,
    pub samples: Vec<Vec<u16>>,
    pub per_depth: Vec<(usize, u64, u64)>,
}

struct Cand<A> {
    fi: u32,
    op: u16,
    key: u128,
    aux: A,
    extend: bool,
}

struct WorkerOut<A> {
    cands: Vec<Cand<A>>,
    transitions: u64,
    extra_exec: u64,
    nontrivial: u64,
    outcomes: HashSet<u64>,
    violations: Vec<(String, Vec<u16>)>,
    known: Vec<(String, String, Vec<u16>)>,
}

pub fn bfs<S: Subject>(subject: &S, cfg: &BfsConfig) -> BfsResult {
    let start = Instant::now();
    let mut res = BfsResult::default();
    let mut seen: HashSet<u128> = HashSet::new();
    let mut outcomes: HashSet<u64> = HashSet::new();
    let mut frontier: Vec<(Vec<u16>, S::Aux)> = vec![(vec![], subject.initial_aux())];
    // the initial state's key is not known without a step; it is counted as one state
    res.states = 1;
    let nops = subject.num_ops();

    for depth in 1..=cfg.max_depth {
        if frontier.is_empty() {
            break;
        }
        let next_item = AtomicUsize::new(0);
        let stop = AtomicBool::new(false);
        let nthreads = cfg.threads.max(1).min(frontier.len().max(1));
        let seen_ref = &seen;
        let frontier_ref = &frontier;
        let outs: Vec<WorkerOut<S::Aux>> = std::thread::scope(|sc| {
            let mut handles = vec![];
            for _ in 0..nthreads {
                handles.push(sc.spawn(|| {
                    let mut ctx = subject.make_ctx();
                    let mut out = WorkerOut {
                        cands: vec![],
                        transitions: 0,
                        extra_exec: 0,
                        nontrivial: 0,
                        outcomes: HashSet::new(),
                        violations: vec![],
                        known: vec![],
                    };
                    let seen_fn = |k: u128| seen_ref.contains(&k);
                    loop {
                        if stop.load(Ordering::Relaxed) {
                            break;
                        }
                        let base = next_item.fetch_add(8, Ordering::Relaxed);
                        if base >= frontier_ref.len() {
                            break;
                        }
                        if start.elapsed() > cfg.wall_cap {
                            stop.store(true, Ordering::Relaxed);
                            break;
                        }
                        for fi in base..(base + 8).min(frontier_ref.len()) {
                            let (hist, aux) = &frontier_ref[fi];
                            for op in 0..nops as u16 {
                                let so = match std::panic::catch_unwind(std::panic::AssertUnwindSafe(|| {
                                    subject.step(&mut ctx, hist, aux, op, &seen_fn)
                                })) {
                                    Ok(so) => so,
                                    Err(p) => {
                                        // a panic outside the guarded calls (observation of a level whose
                                        // counters wrapped, ...): reported, the branch is not extended
                                        let msg = if let Some(s) = p.downcast_ref::<String>() {
                                            s.clone()
                                        } else if let Some(s) = p.downcast_ref::<&str>() {
                                            s.to_string()
                                        } else {
                                            "panic".to_string()
                                        };
                                        ctx = subject.make_ctx();
                                        StepOut {
                                            enabled: true,
                                            key: crate::common::hash128(&("panic", hist, op)),
                                            aux: aux.clone(),
                                            extend: false,
                                            violations: vec![format!("panic while executing / observing this step: {msg}")],
                                            known: vec![],
                                            outcome: 0,
                                            nontrivial: false,
                                            extra_exec: 0,
                                        }
                                    }
                                };
                                if !so.enabled {
                                    continue;
                                }
                                out.transitions += 1;
                                out.extra_exec += so.extra_exec;
                                if so.nontrivial {
                                    out.nontrivial += 1;
                                }
                                out.outcomes.insert(so.outcome);
                                let mut h = hist.clone();
                                h.push(op);
                                for v in so.violations {
                                    if out.violations.len() < 50 {
                                        out.violations.push((v, h.clone()));
                                    }
                                }
                                for (sig, msg) in so.known {
                                    out.known.push((sig, msg, h.clone()));
                                }
                                out.cands.push(Cand {
                                    fi: fi as u32,
                                    op,
                                    key: so.key,
                                    aux: so.aux,
                                    extend: so.extend,
                                });
                            }
                        }
                    }
                    out
                }));
            }
            handles.into_iter().map(|h| h.join().unwrap()).collect()
        });
        let incomplete = stop.load(Ordering::Relaxed);
        let mut cands: Vec<Cand<S::Aux>> = vec![];
        let mut layer_trans = 0;
        for o in outs {
            layer_trans += o.transitions;
            res.extra_exec += o.extra_exec;
            res.nontrivial += o.nontrivial;
            outcomes.extend(o.outcomes);
            for v in o.violations {
                res.violations.push(v);
            }
            for (sig, msg, h) in o.known {
                let e = res.known.entry(sig).or_insert((msg.clone(), h.clone(), 0));
                e.2 += 1;
                // keep the shortest, then lexicographically smallest history (deterministic)
                if (h.len(), &h) < (e.1.len(), &e.1) {
                    e.0 = msg;
                    e.1 = h;
                }
            }
            cands.extend(o.cands);
        }
        res.transitions += layer_trans;
        cands.sort_by_key(|c| (c.fi, c.op));
        let mut next: Vec<(Vec<u16>, S::Aux)> = vec![];
        let mut new_states = 0u64;
        for c in cands {
            if seen.insert(c.key) {
                new_states += 1;
                if c.extend {
                    let mut h = frontier[c.fi as usize].0.clone();
                    h.push(c.op);
                    next.push((h, c.aux));
                }
            }
        }
        res.states += new_states;
        res.per_depth.push((depth, new_states, layer_trans));
        if incomplete {
            res.capped = Some(format!(
                "wall cap {:?} hit inside layer {} (that layer is incomplete)",
                cfg.wall_cap, depth
            ));
            break;
        }
        res.depth_completed = depth;
        // samples: a few of the histories of this layer
        for i in crate::common::sample_indices(next.len(), 2) {
            res.samples.push(next[i].0.clone());
        }
        if seen.len() > cfg.state_cap {
            res.capped = Some(format!(
                "state cap {} reached after layer {}",
                cfg.state_cap, depth
            ));
            break;
        }
        frontier = next;
    }
    res.distinct_outcomes = outcomes.len() as u64;
    res.violations.sort_by(|a, b| (a.1.len(), &a.1).cmp(&(b.1.len(), &b.1)));
    res
}
