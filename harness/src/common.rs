//! Shared vocabulary: order ids, order templates, a normalised order record, observation helpers,
//! evidence / known-findings / replay files.

use pricelevel::{
    MatchResult, OrderId, OrderType, OrderUpdate, PegReferenceType, PriceLevel, PriceLevelError,
    Side, TimeInForce,
};
use serde::Serialize;
use serde_json::{Value, json};
use std::collections::BTreeMap;
use std::hash::{Hash, Hasher};
use std::sync::Arc;
use std::time::Instant;

pub type Ord_ = OrderType<()>;

pub const LEVEL_PRICE: u64 = 100;
pub const OTHER_PRICE: u64 = 101;

/// harness order ids. #4 is special: a ULID-format id with the same 16 bytes as #1 (ids of different
/// formats sharing their bytes are different ids and must never be confused)
pub fn oid(n: u64) -> OrderId {
    if n == 4 {
        let b = match OrderId::from_u64(1) {
            OrderId::Uuid(u) => *u.as_bytes(),
            OrderId::Ulid(u) => u.to_bytes(),
        };
        return OrderId::Ulid(ulid::Ulid::from_bytes(b));
    }
    OrderId::from_u64(n)
}

/// alphabet number (1..15) of a harness id, if it is one
pub fn alphabet_id(idnum: u128) -> Option<u64> {
    (1..16u64).find(|k| idn(oid(*k)) == idnum)
}

/// Inverse of `oid` for harness ids; independent of the crate's own `as_bytes`.
pub fn idn(id: OrderId) -> u128 {
    match id {
        OrderId::Uuid(u) => {
            let b = u.as_bytes();
            let mut hi = [0u8; 8];
            hi.copy_from_slice(&b[..8]);
            let mut lo = [0u8; 8];
            lo.copy_from_slice(&b[8..]);
            let lo = u64::from_be_bytes(lo);
            if lo == 0 {
                u64::from_be_bytes(hi) as u128
            } else {
                u128::from_be_bytes(*b)
            }
        }
        // a ULID never compares equal to a UUID, whatever its bytes: map it into a disjoint-looking range
        OrderId::Ulid(u) => hash128(&("ulid", u.0)) | (1u128 << 127),
    }
}

/// id equality independent of the crate's own `PartialEq for OrderId`
pub fn same_id(a: OrderId, b: OrderId) -> bool {
    idn(a) == idn(b)
}

pub fn idkey(id: OrderId) -> [u8; 16] {
    match id {
        OrderId::Uuid(u) => *u.as_bytes(),
        OrderId::Ulid(u) => u.to_bytes(),
    }
}

pub fn idname(id: OrderId) -> String {
    let n = idn(id);
    if let Some(k) = alphabet_id(n) {
        format!("#{k}")
    } else if n < 1000 {
        format!("#{n}")
    } else {
        format!("{id}")
    }
}

/// Order templates used by the alphabets. Quantities are small so that order states collide.
#[derive(Clone, Copy, Debug, PartialEq, Eq, Hash, PartialOrd, Ord, Serialize)]
pub enum Tmpl {
    S0,
    S3,
    S5,
    S10,
    S4,
    PO4,
    TS5,
    PG5,
    ML5,
    IC23,
    IC31,
    IC02,
    IC34,
    RSa,
    RSd,
    RS0,
    RSn,
    RS36,
    /// fully hidden auto-replenishing reserve: RS(0,4,thr 1,amt 2,auto)
    RSh,
    /// Standard order whose own price differs from the level's (C02 only)
    SX5,
}

pub const ALL_TMPL: [Tmpl; 15] = [
    Tmpl::S0,
    Tmpl::S3,
    Tmpl::S5,
    Tmpl::PO4,
    Tmpl::TS5,
    Tmpl::PG5,
    Tmpl::ML5,
    Tmpl::IC23,
    Tmpl::IC31,
    Tmpl::IC02,
    Tmpl::RSa,
    Tmpl::RSd,
    Tmpl::RS0,
    Tmpl::RSn,
    Tmpl::RSh,
];

/// Timestamps: id 1 is *later* than ids 2 and 3 (not monotone in arrival order when 1 is added
/// first) and ids 2 and 3 tie for templates of equal parity.
pub fn tmpl_ts(id: u64, t: Tmpl) -> u64 {
    let base = match id {
        1 => 20,
        2 => 10,
        3 => 10,
        n => 30 + n,
    };
    base + (t as u64 % 2)
}

pub fn tmpl_side(t: Tmpl) -> Side {
    if (t as u64) % 3 == 0 {
        Side::Sell
    } else {
        Side::Buy
    }
}

pub fn tmpl_tif(t: Tmpl) -> TimeInForce {
    match (t as u64) % 6 {
        0 => TimeInForce::Gtc,
        1 => TimeInForce::Gtd(77),
        2 => TimeInForce::Day,
        3 => TimeInForce::Ioc,
        4 => TimeInForce::Fok,
        _ => TimeInForce::Gtc,
    }
}

pub fn mk(t: Tmpl, idnum: u64, price: u64) -> Ord_ {
    mk_ts(t, idnum, price, tmpl_ts(idnum, t))
}

pub fn mk_ts(t: Tmpl, idnum: u64, price: u64, timestamp: u64) -> Ord_ {
    let id = oid(idnum);
    let side = tmpl_side(t);
    let time_in_force = tmpl_tif(t);
    let std = |q: u64| OrderType::Standard {
        id,
        price,
        quantity: q,
        side,
        timestamp,
        time_in_force,
        extra_fields: (),
    };
    let ice = |v: u64, h: u64| OrderType::IcebergOrder {
        id,
        price,
        visible_quantity: v,
        hidden_quantity: h,
        side,
        timestamp,
        time_in_force,
        extra_fields: (),
    };
    let res = |v: u64, h: u64, thr: u64, amt: Option<u64>, auto: bool| OrderType::ReserveOrder {
        id,
        price,
        visible_quantity: v,
        hidden_quantity: h,
        side,
        timestamp,
        time_in_force,
        replenish_threshold: thr,
        replenish_amount: amt,
        auto_replenish: auto,
        extra_fields: (),
    };
    match t {
        Tmpl::S0 => std(0),
        Tmpl::S3 => std(3),
        Tmpl::S5 => std(5),
        Tmpl::S10 => std(10),
        Tmpl::S4 => std(4),
        Tmpl::SX5 => OrderType::Standard {
            id,
            price: price + 7,
            quantity: 5,
            side,
            timestamp,
            time_in_force,
            extra_fields: (),
        },
        Tmpl::PO4 => OrderType::PostOnly {
            id,
            price,
            quantity: 4,
            side,
            timestamp,
            time_in_force,
            extra_fields: (),
        },
        Tmpl::TS5 => OrderType::TrailingStop {
            id,
            price,
            quantity: 5,
            side,
            timestamp,
            time_in_force,
            trail_amount: 3,
            last_reference_price: 99,
            extra_fields: (),
        },
        Tmpl::PG5 => OrderType::PeggedOrder {
            id,
            price,
            quantity: 5,
            side,
            timestamp,
            time_in_force,
            reference_price_offset: -2,
            reference_price_type: PegReferenceType::MidPrice,
            extra_fields: (),
        },
        Tmpl::ML5 => OrderType::MarketToLimit {
            id,
            price,
            quantity: 5,
            side,
            timestamp,
            time_in_force,
            extra_fields: (),
        },
        Tmpl::IC23 => ice(2, 3),
        Tmpl::IC31 => ice(3, 1),
        Tmpl::IC02 => ice(0, 2),
        Tmpl::IC34 => ice(3, 4),
        Tmpl::RSa => res(3, 4, 2, Some(2), true),
        Tmpl::RSd => res(2, 3, 0, None, true),
        Tmpl::RS0 => res(3, 2, 5, Some(0), true),
        Tmpl::RSn => res(2, 3, 1, Some(2), false),
        Tmpl::RS36 => res(3, 6, 2, Some(2), true),
        Tmpl::RSh => res(0, 4, 1, Some(2), true),
    }
}

/// A fully normalised order record (every field), usable as hash / sort key and printable.
#[derive(Clone, Copy, Debug, PartialEq, Eq, Hash, PartialOrd, Ord, Serialize)]
pub struct Rec {
    pub id: u128,
    pub kind: u8,
    pub price: u64,
    pub vis: u64,
    pub hid: u64,
    pub sell: bool,
    pub ts: u64,
    pub tif: (u8, u64),
    pub p1: u64,
    pub p2: u64,
    pub p3: u64,
    pub p4: u64,
}

pub fn tif_rec(t: TimeInForce) -> (u8, u64) {
    match t {
        TimeInForce::Gtc => (0, 0),
        TimeInForce::Ioc => (1, 0),
        TimeInForce::Fok => (2, 0),
        TimeInForce::Gtd(x) => (3, x),
        TimeInForce::Day => (4, 0),
    }
}

pub fn rec(o: &Ord_) -> Rec {
    let z = Rec {
        id: 0,
        kind: 0,
        price: 0,
        vis: 0,
        hid: 0,
        sell: false,
        ts: 0,
        tif: (0, 0),
        p1: 0,
        p2: 0,
        p3: 0,
        p4: 0,
    };
    match *o {
        OrderType::Standard {
            id,
            price,
            quantity,
            side,
            timestamp,
            time_in_force,
            ..
        } => Rec {
            id: idn(id),
            kind: 0,
            price,
            vis: quantity,
            sell: side == Side::Sell,
            ts: timestamp,
            tif: tif_rec(time_in_force),
            ..z
        },
        OrderType::IcebergOrder {
            id,
            price,
            visible_quantity,
            hidden_quantity,
            side,
            timestamp,
            time_in_force,
            ..
        } => Rec {
            id: idn(id),
            kind: 1,
            price,
            vis: visible_quantity,
            hid: hidden_quantity,
            sell: side == Side::Sell,
            ts: timestamp,
            tif: tif_rec(time_in_force),
            ..z
        },
        OrderType::PostOnly {
            id,
            price,
            quantity,
            side,
            timestamp,
            time_in_force,
            ..
        } => Rec {
            id: idn(id),
            kind: 2,
            price,
            vis: quantity,
            sell: side == Side::Sell,
            ts: timestamp,
            tif: tif_rec(time_in_force),
            ..z
        },
        OrderType::TrailingStop {
            id,
            price,
            quantity,
            side,
            timestamp,
            time_in_force,
            trail_amount,
            last_reference_price,
            ..
        } => Rec {
            id: idn(id),
            kind: 3,
            price,
            vis: quantity,
            sell: side == Side::Sell,
            ts: timestamp,
            tif: tif_rec(time_in_force),
            p1: trail_amount,
            p2: last_reference_price,
            ..z
        },
        OrderType::PeggedOrder {
            id,
            price,
            quantity,
            side,
            timestamp,
            time_in_force,
            reference_price_offset,
            reference_price_type,
            ..
        } => Rec {
            id: idn(id),
            kind: 4,
            price,
            vis: quantity,
            sell: side == Side::Sell,
            ts: timestamp,
            tif: tif_rec(time_in_force),
            p1: reference_price_offset as u64,
            p2: match reference_price_type {
                PegReferenceType::BestBid => 0,
                PegReferenceType::BestAsk => 1,
                PegReferenceType::MidPrice => 2,
                PegReferenceType::LastTrade => 3,
            },
            ..z
        },
        OrderType::MarketToLimit {
            id,
            price,
            quantity,
            side,
            timestamp,
            time_in_force,
            ..
        } => Rec {
            id: idn(id),
            kind: 5,
            price,
            vis: quantity,
            sell: side == Side::Sell,
            ts: timestamp,
            tif: tif_rec(time_in_force),
            ..z
        },
        OrderType::ReserveOrder {
            id,
            price,
            visible_quantity,
            hidden_quantity,
            side,
            timestamp,
            time_in_force,
            replenish_threshold,
            replenish_amount,
            auto_replenish,
            ..
        } => Rec {
            id: idn(id),
            kind: 6,
            price,
            vis: visible_quantity,
            hid: hidden_quantity,
            sell: side == Side::Sell,
            ts: timestamp,
            tif: tif_rec(time_in_force),
            p1: replenish_threshold,
            p2: replenish_amount.is_some() as u64,
            p3: replenish_amount.unwrap_or(0),
            p4: auto_replenish as u64,
            ..z
        },
    }
}

/// id of an order, by pattern matching on the public enum (independent of the crate's accessors)
pub fn o_id(o: &Ord_) -> OrderId {
    match *o {
        OrderType::Standard { id, .. }
        | OrderType::IcebergOrder { id, .. }
        | OrderType::PostOnly { id, .. }
        | OrderType::TrailingStop { id, .. }
        | OrderType::PeggedOrder { id, .. }
        | OrderType::MarketToLimit { id, .. }
        | OrderType::ReserveOrder { id, .. } => id,
    }
}

pub fn o_vis(o: &Ord_) -> u64 {
    rec(o).vis
}
pub fn o_hid(o: &Ord_) -> u64 {
    rec(o).hid
}
pub fn o_tot(o: &Ord_) -> u128 {
    let r = rec(o);
    r.vis as u128 + r.hid as u128
}
pub fn o_side(o: &Ord_) -> Side {
    if rec(o).sell { Side::Sell } else { Side::Buy }
}

/// Returns a copy of `o` with the displayed quantity replaced.
pub fn with_vis(o: &Ord_, v: u64) -> Ord_ {
    let mut n = *o;
    match &mut n {
        OrderType::Standard { quantity, .. }
        | OrderType::PostOnly { quantity, .. }
        | OrderType::TrailingStop { quantity, .. }
        | OrderType::PeggedOrder { quantity, .. }
        | OrderType::MarketToLimit { quantity, .. } => *quantity = v,
        OrderType::IcebergOrder {
            visible_quantity, ..
        }
        | OrderType::ReserveOrder {
            visible_quantity, ..
        } => *visible_quantity = v,
    }
    n
}

pub fn with_vis_hid(o: &Ord_, v: u64, h: u64) -> Ord_ {
    let mut n = with_vis(o, v);
    match &mut n {
        OrderType::IcebergOrder {
            hidden_quantity, ..
        }
        | OrderType::ReserveOrder {
            hidden_quantity, ..
        } => *hidden_quantity = h,
        _ => {}
    }
    n
}

pub fn short(o: &Ord_) -> String {
    let r = rec(o);
    let k = ["S", "IC", "PO", "TS", "PG", "ML", "RS"][r.kind as usize];
    let idp = if let Some(k) = alphabet_id(r.id) {
        format!("#{k}")
    } else if r.id < 1000 {
        format!("#{}", r.id)
    } else {
        format!("#{:x}", r.id)
    };
    match r.kind {
        1 => format!("{k}({},{}){idp}@ts{}", r.vis, r.hid, r.ts),
        6 => format!(
            "{k}({},{},thr{},amt{},{}){idp}@ts{}",
            r.vis,
            r.hid,
            r.p1,
            if r.p2 == 1 {
                r.p3.to_string()
            } else {
                "None".into()
            },
            if r.p4 == 1 { "auto" } else { "manual" },
            r.ts
        ),
        _ => format!("{k}({}){idp}@ts{}", r.vis, r.ts),
    }
}

// ---------------------------------------------------------------------------------------------
// observations of the real level

impl PartialEq for LevelObs {
    fn eq(&self, o: &Self) -> bool {
        (self.price, self.vis, self.hid, self.count, &self.listing)
            == (o.price, o.vis, o.hid, o.count, &o.listing)
            && same_orders(&self.orders, &o.orders)
    }
}
impl Eq for LevelObs {}

/// field-for-field equality of order lists through the harness' own normalisation
pub fn same_orders(a: &[Ord_], b: &[Ord_]) -> bool {
    a.len() == b.len() && a.iter().zip(b.iter()).all(|(x, y)| rec(x) == rec(y))
}

pub fn same_order(a: &Ord_, b: &Ord_) -> bool {
    rec(a) == rec(b)
}

#[derive(Clone, Debug)]
pub struct LevelObs {
    pub price: u64,
    pub vis: u64,
    pub hid: u64,
    pub count: usize,
    /// resting orders in canonical id order
    pub orders: Vec<Ord_>,
    /// ids in listing order (as returned by iter_orders)
    pub listing: Vec<u128>,
}

pub fn observe(level: &PriceLevel) -> LevelObs {
    let listing_arc: Vec<Arc<Ord_>> = level.iter_orders();
    let listing: Vec<u128> = listing_arc.iter().map(|o| idn(o_id(o))).collect();
    let mut orders: Vec<Ord_> = listing_arc.iter().map(|o| **o).collect();
    orders.sort_by_key(|o| rec(o));
    LevelObs {
        price: level.price(),
        vis: level.visible_quantity(),
        hid: level.hidden_quantity(),
        count: level.order_count(),
        orders,
        listing,
    }
}

impl LevelObs {
    pub fn sum_vis(&self) -> u128 {
        self.orders.iter().map(|o| o_vis(o) as u128).sum()
    }
    pub fn sum_hid(&self) -> u128 {
        self.orders.iter().map(|o| o_hid(o) as u128).sum()
    }
    pub fn find(&self, id: OrderId) -> Option<&Ord_> {
        self.orders.iter().find(|o| same_id(o_id(o), id))
    }
    pub fn describe(&self) -> String {
        format!(
            "vis={} hid={} count={} orders=[{}]",
            self.vis,
            self.hid,
            self.count,
            self.orders.iter().map(short).collect::<Vec<_>>().join(", ")
        )
    }
    /// C01 predicate: aggregates equal the sums over the listed orders
    pub fn aggregates_consistent(&self) -> Result<(), String> {
        if self.vis as u128 != self.sum_vis()
            || self.hid as u128 != self.sum_hid()
            || self.count != self.orders.len()
        {
            return Err(format!(
                "aggregates (vis={}, hid={}, count={}) != sums over listed orders (vis={}, hid={}, count={})",
                self.vis,
                self.hid,
                self.count,
                self.sum_vis(),
                self.sum_hid(),
                self.orders.len()
            ));
        }
        Ok(())
    }
}

/// Canonical observation of a match result (transaction ids / timestamps excluded).
#[derive(Clone, Debug, PartialEq, Eq, Hash)]
pub struct MatchObs {
    pub fills: Vec<(u128, u64)>,
    pub remaining: u64,
    pub complete: bool,
    pub filled: Vec<u128>,
}

pub fn match_obs(r: &MatchResult) -> MatchObs {
    MatchObs {
        fills: r
            .transactions
            .as_vec()
            .iter()
            .map(|t| (idn(t.maker_order_id), t.quantity))
            .collect(),
        remaining: r.remaining_quantity,
        complete: r.is_complete,
        filled: r.filled_order_ids.iter().map(|i| idn(*i)).collect(),
    }
}

impl MatchObs {
    pub fn executed(&self) -> u128 {
        self.fills.iter().map(|f| f.1 as u128).sum()
    }
    pub fn describe(&self) -> String {
        format!(
            "fills=[{}] remaining={} complete={} filled={:?}",
            self.fills
                .iter()
                .map(|(i, q)| format!("#{i}x{q}"))
                .collect::<Vec<_>>()
                .join(","),
            self.remaining,
            self.complete,
            self.filled
        )
    }
}

/// Canonical observation of an `update_order` result.
impl PartialEq for UpdObs {
    fn eq(&self, o: &Self) -> bool {
        match (self, o) {
            (UpdObs::Order(a), UpdObs::Order(b)) => rec(a) == rec(b),
            (UpdObs::NotFound, UpdObs::NotFound) | (UpdObs::Rejected, UpdObs::Rejected) => true,
            _ => false,
        }
    }
}
impl Eq for UpdObs {}

#[derive(Clone, Debug)]
pub enum UpdObs {
    Order(Ord_),
    NotFound,
    Rejected,
}

impl UpdObs {
    pub fn describe(&self) -> String {
        match self {
            UpdObs::Order(o) => format!("Ok(Some({}))", short(o)),
            UpdObs::NotFound => "Ok(None)".into(),
            UpdObs::Rejected => "Err".into(),
        }
    }
}

pub fn upd_obs(r: &Result<Option<Arc<Ord_>>, PriceLevelError>) -> UpdObs {
    match r {
        Ok(Some(o)) => UpdObs::Order(**o),
        Ok(None) => UpdObs::NotFound,
        Err(_) => UpdObs::Rejected,
    }
}

pub fn upd_id(u: &OrderUpdate) -> OrderId {
    match *u {
        OrderUpdate::UpdatePrice { order_id, .. }
        | OrderUpdate::UpdateQuantity { order_id, .. }
        | OrderUpdate::UpdatePriceAndQuantity { order_id, .. }
        | OrderUpdate::Cancel { order_id }
        | OrderUpdate::Replace { order_id, .. } => order_id,
    }
}

// ---------------------------------------------------------------------------------------------
// hashing

pub fn hash128<T: Hash>(v: &T) -> u128 {
    let mut h1 = std::collections::hash_map::DefaultHasher::new();
    0x9e37u16.hash(&mut h1);
    v.hash(&mut h1);
    let mut h2 = std::collections::hash_map::DefaultHasher::new();
    0x51f1_5eedu32.hash(&mut h2);
    v.hash(&mut h2);
    ((h1.finish() as u128) << 64) | h2.finish() as u128
}

pub fn hash64<T: Hash>(v: &T) -> u64 {
    let mut h1 = std::collections::hash_map::DefaultHasher::new();
    v.hash(&mut h1);
    h1.finish()
}

// ---------------------------------------------------------------------------------------------
// known findings

#[derive(Clone, Debug, Default)]
pub struct KnownFindings {
    /// signature -> (property ids, description)
    pub open: BTreeMap<String, (Vec<String>, String)>,
}

pub fn verif_root() -> std::path::PathBuf {
    if let Ok(p) = std::env::var("VERIF_ROOT") {
        return p.into();
    }
    // the binary lives in <root>/harness/target/release/
    let exe = std::env::current_exe().unwrap_or_default();
    for anc in exe.ancestors() {
        if anc.join("properties.jsonl").exists() {
            return anc.to_path_buf();
        }
    }
    "/verif".into()
}

impl KnownFindings {
    pub fn load() -> Self {
        let path = verif_root().join("KNOWN_FINDINGS.txt");
        let mut kf = KnownFindings::default();
        let Ok(text) = std::fs::read_to_string(&path) else {
            return kf;
        };
        for line in text.lines() {
            let line = line.trim();
            let Some(rest) = line.strip_prefix("open:") else {
                continue;
            };
            let mut props = vec![];
            let mut sig = None;
            for tok in rest.split_whitespace() {
                if let Some(p) = tok.strip_prefix("property=") {
                    props = p.split(',').map(|s| s.to_string()).collect();
                } else if let Some(s) = tok.strip_prefix("signature=") {
                    sig = Some(s.to_string());
                }
            }
            if let Some(sig) = sig {
                kf.open.insert(sig, (props, rest.trim().to_string()));
            }
        }
        kf
    }
    pub fn is_open(&self, prop: &str, sig: &str) -> bool {
        self.open
            .get(sig)
            .map(|(p, _)| p.iter().any(|x| x == prop))
            .unwrap_or(false)
    }
}

// ---------------------------------------------------------------------------------------------
// reporting

#[derive(Clone, Debug)]
pub struct Violation {
    pub property: String,
    pub message: String,
    /// replayable artefact (JSON)
    pub replay: Value,
}

#[derive(Clone, Debug)]
pub struct Known {
    pub property: String,
    pub signature: String,
    pub message: String,
}

pub struct Report {
    pub property: String,
    pub tier: String,
    pub level: &'static str,
    pub start: Instant,
    pub violations: Vec<Violation>,
    pub known: BTreeMap<String, (Known, u64)>,
    pub coverage: serde_json::Map<String, Value>,
    pub assumptions: Vec<String>,
    pub machinery_errors: Vec<String>,
}

pub fn seed() -> i64 {
    std::env::var("VERIF_SEED")
        .ok()
        .and_then(|s| s.parse::<i64>().ok())
        .unwrap_or(0)
}

impl Report {
    pub fn new(property: &str, tier: &str, level: &'static str) -> Self {
        Report {
            property: property.to_string(),
            tier: tier.to_string(),
            level,
            start: Instant::now(),
            violations: vec![],
            known: BTreeMap::new(),
            coverage: serde_json::Map::new(),
            assumptions: vec![],
            machinery_errors: vec![],
        }
    }

    pub fn cov(&mut self, key: &str, v: Value) {
        self.coverage.insert(key.to_string(), v);
    }

    pub fn add_cov_u64(&mut self, key: &str, n: u64) {
        let cur = self.coverage.get(key).and_then(|v| v.as_u64()).unwrap_or(0);
        self.coverage.insert(key.to_string(), json!(cur + n));
    }

    pub fn append_cov(&mut self, key: &str, items: Vec<Value>) {
        let mut cur = self
            .coverage
            .get(key)
            .and_then(|v| v.as_array().cloned())
            .unwrap_or_default();
        cur.extend(items);
        self.coverage.insert(key.to_string(), Value::Array(cur));
    }

    pub fn and_cov(&mut self, key: &str, b: bool) {
        let cur = self.coverage.get(key).and_then(|v| v.as_bool()).unwrap_or(true);
        self.coverage.insert(key.to_string(), json!(cur && b));
    }

    pub fn concat_cov(&mut self, key: &str, text: &str) {
        let cur = self
            .coverage
            .get(key)
            .and_then(|v| v.as_str().map(|s| s.to_string()))
            .unwrap_or_default();
        let t = if cur.is_empty() { text.to_string() } else { format!("{cur} || {text}") };
        self.coverage.insert(key.to_string(), json!(t));
    }

    pub fn violation(&mut self, message: String, replay: Value) {
        if self.violations.len() < 50 {
            self.violations.push(Violation {
                property: self.property.clone(),
                message,
                replay,
            });
        } else {
            self.add_cov_u64("violations_not_listed", 1);
        }
    }

    pub fn known(&mut self, signature: &str, message: String) {
        let e = self.known.entry(signature.to_string()).or_insert((
            Known {
                property: self.property.clone(),
                signature: signature.to_string(),
                message,
            },
            0,
        ));
        e.1 += 1;
    }

    /// Writes evidence + replay files, prints verdict lines, returns the process exit code.
    pub fn finish(mut self) -> i32 {
        let root = verif_root();
        let wall = self.start.elapsed().as_secs_f64();
        let _ = std::fs::create_dir_all(root.join("evidence"));
        let _ = std::fs::create_dir_all(root.join("replays"));
        let mut out = String::new();
        for (sig, (k, n)) in &self.known {
            out.push_str(&format!(
                "KNOWN-FINDING: property={} signature={} occurrences={} {}\n",
                k.property, sig, n, k.message
            ));
        }
        let mut replay_paths = vec![];
        // de-duplicate violations by message
        let mut seen = std::collections::BTreeSet::new();
        let mut vio = vec![];
        for v in &self.violations {
            if seen.insert(v.message.clone()) {
                vio.push(v.clone());
            }
        }
        for (i, v) in vio.iter().enumerate() {
            let h = hash64(&(v.message.clone(), v.replay.to_string()));
            let path = root
                .join("replays")
                .join(format!("{}-{:016x}.json", v.property, h));
            let doc = json!({"property": v.property, "message": v.message, "replay": v.replay});
            let _ = std::fs::write(&path, serde_json::to_string_pretty(&doc).unwrap());
            if i < 10 {
                out.push_str(&format!("  violation: {}\n", v.message));
                out.push_str(&format!(
                    "VIOLATION property={} replay={}\n",
                    v.property,
                    path.display()
                ));
            }
            replay_paths.push(path.display().to_string());
        }
        if vio.len() > 10 {
            out.push_str(&format!(
                "  ... {} further violations written to {}\n",
                vio.len() - 10,
                root.join("replays").display()
            ));
        }
        for m in &self.machinery_errors {
            out.push_str(&format!("MACHINERY-ERROR: {m}\n"));
        }
        self.coverage
            .insert("known_findings_reported".into(), json!(self.known.len()));
        let ev = json!({
            "property_id": self.property,
            "tier": self.tier,
            "seed": seed(),
            "level": self.level,
            "coverage": Value::Object(self.coverage.clone()),
            "assumptions": self.assumptions,
            "wall_s": wall,
            "violations": vio.len(),
            "known_findings": self.known.iter().map(|(s,(k,n))| json!({"signature": s, "occurrences": n, "first": k.message})).collect::<Vec<_>>(),
            "replays": replay_paths,
        });
        let evpath = root.join("evidence").join(format!("{}.json", self.property));
        if let Err(e) = std::fs::write(&evpath, serde_json::to_string_pretty(&ev).unwrap()) {
            out.push_str(&format!("MACHINERY-ERROR: cannot write evidence: {e}\n"));
            print!("{out}");
            return 2;
        }
        // a violation found on the real code stands even if the machinery also complained about itself
        let code = if !vio.is_empty() {
            1
        } else if !self.machinery_errors.is_empty() {
            2
        } else {
            0
        };
        out.push_str(&format!(
            "{} {} {}: {} violation(s), {} known finding signature(s), {:.1}s, evidence {}\n",
            self.property,
            self.tier,
            if code == 0 { "PASS" } else { "FAIL" },
            vio.len(),
            self.known.len(),
            wall,
            evpath.display()
        ));
        print!("{out}");
        code
    }
}

/// Pick up to `n` sample indices, rotated by the seed (nothing is sampled for the verdict).
pub fn sample_indices(len: usize, n: usize) -> Vec<usize> {
    if len == 0 {
        return vec![];
    }
    let s = seed().unsigned_abs() as usize;
    let n = n.min(len);
    (0..n).map(|i| (s + i * (len / n).max(1)) % len).collect()
}
