//! Reference model, written from the property statements (C04, C05, C07), in Rust and kept boring.
//!
//! The *ideal* model is `ModelLevel { kf1: false, kf2: false }`. The two switches reproduce the
//! mechanisms described by the open entries of KNOWN_FINDINGS.txt:
//!   kf1 = requeue_partial_fill_at_tail   (a maker that survives a match without being replenished - partially
//!                                         filled, or set aside because it can give nothing - is re-queued at the tail)
//!   kf2 = stale_ticket_keeps_position    (removal leaves the arrival ticket behind; any ticket whose
//!                                         id is resting is honoured)

use crate::common::*;
use pricelevel::{OrderId, OrderType, OrderUpdate};
use std::collections::VecDeque;

pub const DEFAULT_REPLENISH: u64 = 80;

#[derive(Clone, Debug, PartialEq, Eq)]
pub struct SpecMatch {
    pub consumed: u64,
    pub remaining: u64,
    pub updated: Option<Ord_>,
    pub hidden_reduced: u64,
    /// went through a replenish branch (possibly of size 0)
    pub replenished: bool,
    /// hidden quantity dropped because the order left the book with hidden quantity
    pub discarded: u64,
}

/// iceberg tranche: the statement only bounds it (<= exhausted display, <= hidden); the level model
/// uses the documented choice min(hidden, exhausted display)
pub fn spec_tranche(hidden: u64, exhausted: u64) -> u64 {
    hidden.min(exhausted)
}

/// The statement leaves the size of a new iceberg tranche open within `<= exhausted display` and
/// `<= hidden`. The model therefore adopts whatever size the implementation's `match_against` chooses
/// for this very order as long as it respects those bounds and conserves the total; otherwise (or if the
/// call panics) the documented choice `min(hidden, exhausted)` is used and the disagreement shows up.
fn adaptive_tranche(o: &Ord_, incoming: u64, hidden: u64, exhausted: u64) -> u64 {
    let default = spec_tranche(hidden, exhausted);
    let r = std::panic::catch_unwind(std::panic::AssertUnwindSafe(|| o.match_against(incoming)));
    if let Ok((_, Some(u), _, _)) = r {
        let (v2, h2) = (o_vis(&u), o_hid(&u));
        if v2 <= default && h2 <= hidden && hidden - h2 == v2 {
            return v2;
        }
    }
    default
}

/// C05's rules as a function.
pub fn spec_match_against(o: &Ord_, incoming: u64) -> SpecMatch {
    let vis = o_vis(o);
    let hid = o_hid(o);
    let consumed = incoming.min(vis);
    let remaining = incoming - consumed;
    let exhausted = vis <= incoming;
    match *o {
        OrderType::IcebergOrder { .. } => {
            if exhausted {
                if hid > 0 {
                    let t = adaptive_tranche(o, incoming, hid, vis);
                    SpecMatch {
                        consumed,
                        remaining,
                        updated: Some(with_vis_hid(o, t, hid - t)),
                        hidden_reduced: t,
                        replenished: true,
                        discarded: 0,
                    }
                } else {
                    SpecMatch {
                        consumed,
                        remaining,
                        updated: None,
                        hidden_reduced: 0,
                        replenished: false,
                        discarded: 0,
                    }
                }
            } else {
                SpecMatch {
                    consumed,
                    remaining,
                    updated: Some(with_vis_hid(o, vis - consumed, hid)),
                    hidden_reduced: 0,
                    replenished: false,
                    discarded: 0,
                }
            }
        }
        OrderType::ReserveOrder {
            replenish_threshold,
            replenish_amount,
            auto_replenish,
            ..
        } => {
            let threshold = if replenish_threshold == 0 {
                1
            } else {
                replenish_threshold
            };
            let amount = replenish_amount.unwrap_or(DEFAULT_REPLENISH).min(hid);
            if exhausted {
                if hid > 0 && auto_replenish {
                    SpecMatch {
                        consumed,
                        remaining,
                        updated: Some(with_vis_hid(o, amount, hid - amount)),
                        hidden_reduced: amount,
                        replenished: true,
                        discarded: 0,
                    }
                } else {
                    SpecMatch {
                        consumed,
                        remaining,
                        updated: None,
                        hidden_reduced: 0,
                        replenished: false,
                        discarded: hid,
                    }
                }
            } else {
                let new_vis = vis - consumed;
                if new_vis < threshold && hid > 0 && auto_replenish {
                    SpecMatch {
                        consumed,
                        remaining,
                        updated: Some(with_vis_hid(o, new_vis + amount, hid - amount)),
                        hidden_reduced: amount,
                        replenished: true,
                        discarded: 0,
                    }
                } else {
                    SpecMatch {
                        consumed,
                        remaining,
                        updated: Some(with_vis_hid(o, new_vis, hid)),
                        hidden_reduced: 0,
                        replenished: false,
                        discarded: 0,
                    }
                }
            }
        }
        _ => {
            if exhausted {
                SpecMatch {
                    consumed,
                    remaining,
                    updated: None,
                    hidden_reduced: 0,
                    replenished: false,
                    discarded: 0,
                }
            } else {
                SpecMatch {
                    consumed,
                    remaining,
                    updated: Some(with_vis(o, vis - consumed)),
                    hidden_reduced: 0,
                    replenished: false,
                    discarded: 0,
                }
            }
        }
    }
}

/// Total quantity a sufficiently large match can execute against this order (C08's drain promise).
pub fn spec_executable(o: &Ord_) -> u128 {
    let mut cur = *o;
    let mut total = 0u128;
    // each round either consumes or reduces hidden; bounded by construction for the harness' small orders
    for _ in 0..100_000 {
        let m = spec_match_against(&cur, u64::MAX);
        total += m.consumed as u128;
        match m.updated {
            None => return total,
            Some(u) => {
                if m.consumed == 0 && m.hidden_reduced == 0 {
                    return total;
                }
                cur = u;
            }
        }
    }
    total
}

/// same-price quantity amendment (C07): new displayed quantity for Standard, PostOnly and Iceberg,
/// no change for the other types
pub fn spec_amend(o: &Ord_, n: u64) -> Ord_ {
    match *o {
        OrderType::Standard { .. } | OrderType::PostOnly { .. } | OrderType::IcebergOrder { .. } => {
            with_vis(o, n)
        }
        _ => *o,
    }
}

#[derive(Clone, Debug, PartialEq, Eq)]
pub struct ModelLevel {
    pub price: u64,
    pub kf1: bool,
    pub kf2: bool,
    /// arrival tickets, front = next to trade. Without kf2 there is exactly one ticket per resting order.
    pub tickets: VecDeque<OrderId>,
    /// resting orders (small; linear search)
    pub orders: Vec<Ord_>,
    // statistics the level should report (C15)
    pub added: u64,
    pub removed: u64,
    pub qty_executed: u128,
}

impl ModelLevel {
    pub fn new(price: u64, kf1: bool, kf2: bool) -> Self {
        ModelLevel {
            price,
            kf1,
            kf2,
            tickets: VecDeque::new(),
            orders: vec![],
            added: 0,
            removed: 0,
            qty_executed: 0,
        }
    }

    pub fn name(&self) -> &'static str {
        match (self.kf1, self.kf2) {
            (false, false) => "ideal",
            (true, false) => "kf1",
            (false, true) => "kf2",
            (true, true) => "kf1+kf2",
        }
    }

    pub fn get(&self, id: OrderId) -> Option<&Ord_> {
        self.orders.iter().find(|o| same_id(o_id(o), id))
    }

    fn take(&mut self, id: OrderId) -> Option<Ord_> {
        let pos = self.orders.iter().position(|o| same_id(o_id(o), id))?;
        Some(self.orders.remove(pos))
    }

    fn purge_tickets(&mut self, id: OrderId) {
        if !self.kf2 {
            self.tickets.retain(|t| !same_id(*t, id));
        }
    }

    pub fn add(&mut self, o: Ord_) {
        // precondition of the properties: ids unique among resting orders
        self.orders.push(o);
        self.tickets.push_back(o_id(&o));
        self.added += 1;
    }

    /// rebuild: orders re-queued in the given order (used after a restore)
    pub fn rebuild(price: u64, kf1: bool, kf2: bool, orders: &[Ord_]) -> Self {
        let mut m = ModelLevel::new(price, kf1, kf2);
        for o in orders {
            m.add(*o);
        }
        m.added = 0;
        m
    }

    fn remove(&mut self, id: OrderId) -> Option<Ord_> {
        let o = self.take(id)?;
        self.purge_tickets(id);
        Some(o)
    }

    fn amend(&mut self, id: OrderId, n: u64) -> Option<Ord_> {
        let pos = self.orders.iter().position(|o| same_id(o_id(o), id))?;
        let new = spec_amend(&self.orders[pos], n);
        self.orders[pos] = new;
        if self.kf2 {
            // the implementation's amend is remove + push: the old ticket keeps the position and a
            // second ticket is appended
            self.tickets.push_back(id);
        }
        Some(new)
    }

    pub fn update(&mut self, u: &OrderUpdate) -> UpdObs {
        let removed = |m: &mut Self, id| match m.remove(id) {
            Some(o) => {
                m.removed += 1;
                UpdObs::Order(o)
            }
            None => UpdObs::NotFound,
        };
        let amended = |m: &mut Self, id, n| match m.amend(id, n) {
            Some(o) => UpdObs::Order(o),
            None => UpdObs::NotFound,
        };
        match *u {
            OrderUpdate::UpdatePrice {
                order_id,
                new_price,
            } => {
                if new_price != self.price {
                    removed(self, order_id)
                } else {
                    UpdObs::Rejected
                }
            }
            OrderUpdate::UpdateQuantity {
                order_id,
                new_quantity,
            } => amended(self, order_id, new_quantity),
            OrderUpdate::UpdatePriceAndQuantity {
                order_id,
                new_price,
                new_quantity,
            } => {
                if new_price != self.price {
                    removed(self, order_id)
                } else {
                    amended(self, order_id, new_quantity)
                }
            }
            OrderUpdate::Cancel { order_id } => removed(self, order_id),
            OrderUpdate::Replace {
                order_id,
                price,
                quantity,
                ..
            } => {
                if price != self.price {
                    removed(self, order_id)
                } else {
                    amended(self, order_id, quantity)
                }
            }
        }
    }

    fn pop(&mut self) -> Option<Ord_> {
        while let Some(t) = self.tickets.pop_front() {
            if let Some(o) = self.take(t) {
                return Some(o);
            }
        }
        None
    }

    pub fn do_match(&mut self, q: u64) -> MatchObs {
        let mut remaining = q;
        let mut fills: Vec<(u128, u64)> = vec![];
        let mut left: Vec<u128> = vec![];
        let mut set_aside: Vec<Ord_> = vec![];
        // ideal model: survivors that were not replenished (partially filled, or unable to give anything)
        // keep their place: they are put back at the front, in their original relative order, when the call ends
        let mut keep_place: Vec<Ord_> = vec![];
        let mut rounds = 0u64;
        while remaining > 0 {
            rounds += 1;
            if rounds > 100_000 {
                // alphabets are chosen so that this never happens; guard against runaway memory
                panic!("reference model: more than 100000 maker visits in one match");
            }
            let Some(o) = self.pop() else { break };
            let id = o_id(&o);
            let m = spec_match_against(&o, remaining);
            if m.consumed > 0 {
                fills.push((idn(id), m.consumed));
                self.qty_executed += m.consumed as u128;
            }
            remaining = m.remaining;
            match m.updated {
                Some(u) => {
                    if m.consumed == 0 && m.hidden_reduced == 0 {
                        // can give nothing: out of the queue for the rest of the call
                        if self.kf1 {
                            set_aside.push(u);
                        } else {
                            keep_place.push(u);
                        }
                    } else if m.replenished && !(m.consumed == 0 && m.hidden_reduced == 0) || self.kf1 {
                        self.orders.push(u);
                        self.tickets.push_back(id);
                    } else {
                        // partially filled, not replenished: keeps its place
                        keep_place.push(u);
                    }
                }
                None => {
                    self.purge_tickets(id);
                    left.push(idn(id));
                }
            }
        }
        for u in set_aside {
            let id = o_id(&u);
            self.orders.push(u);
            self.tickets.push_back(id);
        }
        for u in keep_place.into_iter().rev() {
            let id = o_id(&u);
            self.orders.push(u);
            self.tickets.push_front(id);
        }
        // filled list: makers that traded in this call and are no longer in the book, in leaving order
        let filled: Vec<u128> = left
            .into_iter()
            .filter(|i| fills.iter().any(|f| f.0 == *i))
            .collect();
        MatchObs {
            fills,
            remaining,
            complete: remaining == 0,
            filled,
        }
    }

    /// resting orders in canonical order
    pub fn canonical_orders(&self) -> Vec<Ord_> {
        let mut v = self.orders.clone();
        v.sort_by_key(|o| rec(o));
        v
    }

    /// hashable rendering of the complete model state
    pub fn state_key(&self) -> (Vec<u128>, Vec<Rec>) {
        (
            self.tickets.iter().map(|t| idn(*t)).collect(),
            self.canonical_orders().iter().map(rec).collect(),
        )
    }

    /// ids in effective priority order (first valid ticket of each resting order)
    pub fn priority(&self) -> Vec<u128> {
        let mut out = vec![];
        for t in &self.tickets {
            let n = idn(*t);
            if self.get(*t).is_some() && !out.contains(&n) {
                out.push(n);
            }
        }
        out
    }
}

/// Model of the exported order queue used on its own (C19).
#[derive(Clone, Debug, PartialEq, Eq)]
pub struct ModelQueue {
    pub kf2: bool,
    pub tickets: VecDeque<OrderId>,
    pub orders: Vec<Ord_>,
}

impl ModelQueue {
    pub fn new(kf2: bool) -> Self {
        ModelQueue {
            kf2,
            tickets: VecDeque::new(),
            orders: vec![],
        }
    }
    pub fn push(&mut self, o: Ord_) {
        let id = o_id(&o);
        if let Some(p) = self.orders.iter().position(|x| same_id(o_id(x), id)) {
            // pushing an id that is already queued replaces the order (map semantics); not used by the
            // alphabets (ids are pushed once or re-pushed after removal)
            self.orders[p] = o;
        } else {
            self.orders.push(o);
        }
        self.tickets.push_back(id);
    }
    pub fn pop(&mut self) -> Option<Ord_> {
        while let Some(t) = self.tickets.pop_front() {
            if let Some(p) = self.orders.iter().position(|x| same_id(o_id(x), t)) {
                let o = self.orders.remove(p);
                if !self.kf2 {
                    self.tickets.retain(|x| !same_id(*x, t));
                }
                return Some(o);
            }
        }
        None
    }
    pub fn remove(&mut self, id: OrderId) -> Option<Ord_> {
        let p = self.orders.iter().position(|x| same_id(o_id(x), id))?;
        let o = self.orders.remove(p);
        if !self.kf2 {
            self.tickets.retain(|x| !same_id(*x, id));
        }
        Some(o)
    }
    pub fn find(&self, id: OrderId) -> Option<Ord_> {
        self.orders.iter().find(|x| same_id(o_id(x), id)).copied()
    }
    pub fn len(&self) -> usize {
        self.orders.len()
    }
    pub fn state_key(&self) -> (Vec<u128>, Vec<Rec>) {
        let mut v: Vec<Rec> = self.orders.iter().map(rec).collect();
        v.sort();
        (self.tickets.iter().map(|t| idn(*t)).collect(), v)
    }
}
