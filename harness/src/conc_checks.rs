//! Property checks served by engine C: C03 C08 C12 C13 C14 C15(concurrent half).

use crate::common::*;
use crate::conc::*;
use crate::sched::{self, RunOut, Work};
use crate::seq_level::NS;
use pricelevel::{OrderQueue, UuidGenerator};
use serde_json::{Value, json};
use std::cell::RefCell;
use std::collections::HashSet;
use std::rc::Rc;
use std::sync::Arc;
use std::time::Duration;
use uuid::Uuid;

pub struct Stage {
    pub name: String,
    pub programs: Vec<Program>,
    pub bound: Option<u32>,
    pub exec: ExecCfg,
    pub want_c14: bool,
}

fn exec_cfg(stats: bool, counter: bool) -> ExecCfg {
    ExecCfg {
        yield_stats: stats,
        yield_counter: counter,
        max_steps: 4000,
        clock_step_ms: None,
    }
}

fn stage(name: &str, programs: Vec<Program>, bound: Option<u32>) -> Stage {
    Stage {
        name: name.to_string(),
        programs,
        bound,
        exec: exec_cfg(false, false),
        want_c14: false,
    }
}

/// programs containing at least one of the given kinds of operation
fn filter(ps: Vec<Program>, pred: impl Fn(&COp) -> bool) -> Vec<Program> {
    ps.into_iter()
        .filter(|p| p.threads.iter().flatten().any(|o| pred(o)))
        .collect()
}

fn is_update(o: &COp) -> bool {
    matches!(o.canon(), COp::Cancel(_) | COp::Move(_) | COp::Amend(..))
}

pub fn stages(prop: &str, tier: &str) -> Vec<Stage> {
    let quick = tier == "quick";
    let alpha = thread_alphabet();
    let books5 = [Book::B1, Book::B2, Book::B3, Book::B4, Book::B5];
    // a reduced alphabet for the larger program shapes
    let small = vec![
        COp::Add,
        COp::Match(2),
        COp::Match(20),
        COp::Cancel(1),
        COp::Amend(1, 8),
        COp::Amend(1, 2),
        COp::Read,
    ];
    let tiny = vec![COp::Match(4), COp::Cancel(1), COp::Amend(1, 2), COp::Add];
    let common = |v: &mut Vec<Stage>| {
        // operations that make sense on the 70-order book
        let big = vec![COp::Match(1000), COp::Match(20), COp::Cancel(100), COp::Cancel(136), COp::Cancel(169), COp::Add, COp::Read];
        let books6 = [
            Book::B1,
            Book::B2,
            Book::B3,
            Book::B4,
            Book::B5,
            Book::B6,
            Book::B7,
            Book::B8,
            Book::B11,
            Book::B12,
        ];
        let mut wide = alpha.clone();
        wide.extend([
            COp::AddIce,
            COp::Amend(1, 0),
            COp::Move(2),
            COp::Match(1000),
            COp::MoveVia(1, 1),
            COp::MoveVia(2, 1),
            COp::AmendVia(1, 1, 2),
            COp::AmendVia(2, 1, 8),
            COp::Cancel(3),
            // amendments to the quantity the order already shows (B1: S10#1, every book: S5#2)
            COp::Amend(1, 10),
            COp::Amend(2, 5),
        ]);
        if quick {
            v.push(stage("pairs of 1-op threads, wide alphabet, ten books", programs_1op(2, &books6, &wide), Some(3)));
            v.push(stage("triples of 1-op threads, books B1-B5", programs_1op(3, &books5, &alpha), Some(2)));
            v.push(stage("pairs of 2-op threads, reduced alphabet, B1-B4", programs_2x2(&BOOKS4, &small), Some(2)));
            v.push(stage("pairs of 1-op threads on a 70-order book", programs_1op(2, &[Book::B9, Book::B10], &big), Some(1)));
            {
                // levels with a long history behind them: > 1024 stale tickets (B13), dead tickets outnumbering the live orders (B14)
                let hist: Vec<Book> = (1019u16..=1028).map(Book::Hist).collect();
                let dead: Vec<Book> = [62u16, 63, 64, 66].iter().map(|n| Book::Dead(*n)).collect();
                let mut st = stage(
                    "pairs of 1-op threads on levels with 1019..1028 amendments behind them",
                    programs_1op(2, &hist, &[COp::Amend(1, 8), COp::Cancel(2), COp::Cancel(3), COp::Match(2), COp::Cancel(1)]),
                    Some(1),
                );
                st.exec.max_steps = 40_000;
                v.push(st);
                let mut st = stage(
                    "pairs of 1-op threads on 70-order levels where 62..66 orders were cancelled",
                    programs_1op(2, &dead, &[COp::Cancel(166), COp::Cancel(167), COp::Match(20), COp::Match(2)]),
                    Some(2),
                );
                st.exec.max_steps = 40_000;
                v.push(st);
            }
            for (ms, what) in [(1500u64, "1.5 s"), (3_600_000, "1 h")] {
                let mut st = stage(
                    &format!("pairs of 1-op threads, books B1-B5, under a clock that advances {what} at every reading"),
                    programs_1op(2, &books5, &alpha),
                    Some(2),
                );
                st.exec.clock_step_ms = Some(ms);
                v.push(st);
            }
            v.push(stage("a reader that rebuilds a level from its snapshot and empties it, against one and two writers, books B1-B5", restore_programs(&books5, &alpha, false), Some(3)));
            v.push(stage("victim programs: one fine-grained operation against 3 call-atomic operations of another thread, B1 B2 B3 B12", programs_victim(&[Book::B1, Book::B2, Book::B3, Book::B12], &alpha, &[COp::Add, COp::Match(2), COp::Match(20), COp::Cancel(1), COp::Amend(1, 2)], 3), None));
        } else {
            {
                let hist: Vec<Book> = (1017u16..=1030).map(Book::Hist).collect();
                let dead: Vec<Book> = (60u16..=67).map(Book::Dead).collect();
                // match 20 walks over all ~1024 duplicate tickets (2 000 steps in one call): bound 1 with it, bound 2 without
                let mut st = stage(
                    "pairs of 1-op threads on levels with 1017..1030 amendments behind them, bound 1",
                    programs_1op(2, &hist, &[COp::Amend(1, 8), COp::Amend(2, 1), COp::Cancel(2), COp::Cancel(3), COp::Match(2), COp::Match(20), COp::Cancel(1), COp::Add]),
                    Some(1),
                );
                st.exec.max_steps = 40_000;
                v.push(st);
                let mut st = stage(
                    "pairs of 1-op threads on levels with 1017..1030 amendments behind them, short calls, bound 2",
                    programs_1op(2, &hist, &[COp::Amend(1, 8), COp::Amend(2, 1), COp::Cancel(2), COp::Cancel(3), COp::Match(2), COp::Cancel(1), COp::Add]),
                    Some(2),
                );
                st.exec.max_steps = 40_000;
                v.push(st);
                let mut st = stage(
                    "pairs of 1-op threads on 70-order levels where 60..67 orders were cancelled",
                    programs_1op(2, &dead, &[COp::Cancel(166), COp::Cancel(167), COp::Match(20), COp::Match(2), COp::Add, COp::Read]),
                    Some(2),
                );
                st.exec.max_steps = 40_000;
                v.push(st);
            }
            for (ms, what, bound) in [(0u64, "not at all (frozen)", 2u32), (1500, "1.5 s", 3), (3_600_000, "1 h", 2), (400, "0.4 s", 2)] {
                let mut st = stage(
                    &format!("pairs of 1-op threads, wide alphabet, ten books, under a clock that advances {what} at every reading"),
                    programs_1op(2, &books6, &wide),
                    Some(bound),
                );
                st.exec.clock_step_ms = Some(ms);
                v.push(st);
            }
            v.push(stage("a reader that rebuilds a level from its snapshot and empties it, against one and two writers, ten books", restore_programs(&books6, &wide, true), Some(3)));
            v.push(stage("victim programs: one fine-grained operation against 4 call-atomic operations of another thread, seven books", programs_victim(&[Book::B1, Book::B2, Book::B3, Book::B4, Book::B7, Book::B8, Book::B12], &wide, &[COp::Add, COp::Match(2), COp::Match(20), COp::Cancel(1), COp::Amend(1, 2)], 4), None));
            v.push(stage("pairs and triples of 1-op threads on a 70-order book", { let mut p = programs_1op(2, &[Book::B9, Book::B10], &big); p.extend(programs_1op(3, &[Book::B9], &big)); p }, Some(2)));
            // a wider alphabet for the unbounded two-thread programs: iceberg adds, amend to zero display
            // (an order that can give nothing), a second price move
            // no bound at all where that is feasible (short programs), bound 5 for the long sweeps
            let (short, long) = split_by_length(programs_1op(2, &books6, &wide), 34);
            v.push(stage("pairs of 1-op threads, wide alphabet, ten books, programs of <= 34 steps, unbounded", short, None));
            v.push(stage("pairs of 1-op threads, wide alphabet, ten books, longer programs, bound 5", long, Some(5)));
            v.push(stage("triples of 1-op threads, ten books", programs_1op(3, &books6, &alpha), Some(3)));
            v.push(stage("triples of 1-op threads, reduced alphabet, B1-B4, bound 4", programs_1op(3, &BOOKS4, &small), Some(4)));
            v.push(stage("pairs of 2-op threads, full alphabet, B1-B4", programs_2x2(&BOOKS4, &alpha), Some(3)));
            v.push(stage("quadruples of 1-op threads, reduced alphabet, B1-B4", programs_1op(4, &BOOKS4, &small), Some(2)));
            let mut p3x2 = vec![];
            for b in [Book::B2, Book::B3] {
                let seqs: Vec<Vec<COp>> = tiny.iter().flat_map(|a| tiny.iter().filter(move |b| !(matches!(a, COp::Add) && matches!(b, COp::Add))).map(move |b| vec![*a, *b])).collect();
                for i in 0..seqs.len() {
                    for j in i..seqs.len() {
                        for k in j..seqs.len() {
                            p3x2.push(Program { book: b, threads: vec![seqs[i].clone(), seqs[j].clone(), seqs[k].clone()], coarse: vec![] });
                        }
                    }
                }
            }
            v.push(stage("triples of 2-op threads, tiny alphabet, B2 B3", p3x2, Some(2)));
        }
    };
    let mut v = vec![];
    match prop {
        "C03" | "C08" | "C12" => common(&mut v),
        "C16" | "C17" => {
            let reader = if prop == "C16" { COp::Show } else { COp::ShowJson };
            let what = if prop == "C16" { "text" } else { "JSON" };
            let books: Vec<Book> = if quick { books5.to_vec() } else { vec![Book::B1, Book::B2, Book::B3, Book::B4, Book::B5, Book::B6, Book::B7, Book::B8, Book::B11, Book::B12] };
            v.push(stage(
                &format!("a reader that prints the level as {what} and parses it back, against one and two writers"),
                reader_programs(reader, &books, &alpha, !quick),
                Some(if quick { 3 } else { 4 }),
            ));
        }
        "C13" => {
            common(&mut v);
            for s in v.iter_mut() {
                let ps = std::mem::take(&mut s.programs);
                s.programs = filter(ps, is_update);
                s.name = format!("{} (programs with a cancel / move / amend)", s.name);
            }
        }
        "C15" => {
            // statistics atomics are scheduling points here
            let mut a = stage("pairs of 1-op threads, all books", programs_1op(2, &books5, &alpha), Some(if quick { 2 } else { 3 }));
            a.exec = exec_cfg(true, false);
            let mut b = stage("triples of 1-op threads, books B1-B4", programs_1op(3, &BOOKS4, &alpha), Some(if quick { 1 } else { 2 }));
            b.exec = exec_cfg(true, false);
            v.push(a);
            v.push(b);
            if !quick {
                let mut c = stage("pairs of 2-op threads, reduced alphabet, B2 B3", programs_2x2(&[Book::B2, Book::B3], &small), Some(2));
                c.exec = exec_cfg(true, false);
                v.push(c);
            }
        }
        "C14" => {
            // matches sharing one generator: the counter is a scheduling point
            let matchy = vec![COp::Match(2), COp::Match(4), COp::Match(20), COp::Add, COp::Cancel(2)];
            let books_c14 = [Book::B1, Book::B2, Book::B3, Book::B4, Book::B5, Book::B8, Book::B12];
            let mut a = stage("pairs of 1-op threads with matches, seven books (incl. dormant orders)", filter(programs_1op(2, &books_c14, &matchy), |o| matches!(o, COp::Match(_))), Some(if quick { 3 } else { 4 }));
            a.exec = exec_cfg(false, true);
            a.want_c14 = true;
            let mut b = stage("triples of 1-op threads with matches, B1-B4", filter(programs_1op(3, &BOOKS4, &matchy), |o| matches!(o, COp::Match(_))), Some(if quick { 2 } else { 3 }));
            b.exec = exec_cfg(false, true);
            b.want_c14 = true;
            v.push(a);
            v.push(b);
        }
        _ => {}
    }
    v
}

/// splits programs by the number of scheduled steps of their default schedule
fn split_by_length(ps: Vec<Program>, max_steps: u32) -> (Vec<Program>, Vec<Program>) {
    sched::install_hook();
    let cfg = exec_cfg(false, false);
    let mut short = vec![];
    let mut long = vec![];
    for p in ps {
        let ex = execute(&p, &[], &cfg);
        if ex.out.steps <= max_steps && !ex.out.aborted {
            short.push(p);
        } else {
            long.push(p);
        }
    }
    sched::uninstall_hook();
    (short, long)
}

fn wall_cap(tier: &str, n: usize) -> Duration {
    let total = if tier == "quick" { 45.0 } else { 2700.0 };
    let total = std::env::var("VERIF_WALL_CAP_S")
        .ok()
        .and_then(|s| s.parse::<f64>().ok())
        .unwrap_or(total);
    Duration::from_secs_f64(total / n.max(1) as f64)
}

pub fn audit_hook_coverage() -> Vec<String> {
    // code that uses synchronisation primitives without going through the wrappers is invisible to the scheduler
    let mut hits = vec![];
    let root = std::path::PathBuf::from(std::env::var("VERIF_REPO").unwrap_or("/repo".into())).join("src");
    let mut stack = vec![root.clone()];
    while let Some(d) = stack.pop() {
        let Ok(rd) = std::fs::read_dir(&d) else { continue };
        for e in rd.flatten() {
            let p = e.path();
            if p.is_dir() {
                if p.file_name().map(|n| n == "tests").unwrap_or(false) {
                    continue;
                }
                stack.push(p);
                continue;
            }
            let name = p.file_name().and_then(|n| n.to_str()).unwrap_or("");
            if !name.ends_with(".rs") || name == "verif_hooks.rs" || name == "logger.rs" {
                continue;
            }
            let Ok(text) = std::fs::read_to_string(&p) else { continue };
            let mut in_tests = false;
            let mut prev_cfg_not_hooks = false;
            for (ln, line) in text.lines().enumerate() {
                let t = line.trim();
                if t.starts_with("#[cfg(test)]") {
                    in_tests = true;
                }
                if in_tests || t.starts_with("//") {
                    continue;
                }
                let guarded = prev_cfg_not_hooks;
                prev_cfg_not_hooks = t.starts_with("#[cfg(not(feature = \"verif-hooks\"))]");
                if guarded {
                    continue;
                }
                for pat in [
                    "std::sync::atomic::Atomic",
                    "sync::atomic::{Atomic",
                    "dashmap::",
                    "crossbeam::",
                    "Mutex",
                    "RwLock",
                    "static mut",
                    "unsafe ",
                    "UnsafeCell",
                    "AtomicBool",
                    "AtomicI64",
                    "AtomicU32",
                    "AtomicPtr",
                    "thread_local",
                    "OnceLock",
                    "OnceCell",
                    "parking_lot",
                    "Condvar",
                ] {
                    if t.contains(pat) {
                        hits.push(format!("{}:{}: {}", p.display(), ln + 1, t));
                        break;
                    }
                }
            }
        }
    }
    hits
}

pub fn run(prop: &str, tier: &str) -> i32 {
    let mut report = Report::new(prop, tier, "model_checking");
    run_into(&mut report, prop, tier, 1.0);
    report.finish()
}

pub fn run_into(report: &mut Report, prop: &str, tier: &str, share: f64) {
    let known = KnownFindings::load();
    let audit = audit_hook_coverage();
    // a primitive the wrappers do not cover is invisible to the scheduler: the exploration is then incomplete
    // around it (it can still only report real executions). Reported loudly, recorded in the evidence, not a verdict.
    for h in &audit {
        println!("AUDIT-WARNING: synchronisation primitive outside the hook wrappers (its operations are not scheduling points): {h}");
    }
    report.cov("hook_coverage_audit_hits", json!(audit));
    if !audit.is_empty() {
        report.and_cov("exhaustive", false);
    }
    let stages = stages(prop, tier);
    let nst = stages.len() + if prop == "C14" || prop == "C08" { 1 } else { 0 };
    let cap = wall_cap(tier, nst).mul_f64(share);
    let total = wall_cap(tier, 1).mul_f64(share);
    let t0 = std::time::Instant::now();
    let threads = crate::seq_checks::threads();
    let mut tot_exec = 0u64;
    let mut tot_steps = 0u64;
    let mut tot_prog = 0u64;
    let mut tot_pre = 0u64;
    let mut tot_states = 0u64;
    let mut tot_outcomes = 0u64;
    let mut runs = vec![];
    let mut samples: Vec<Value> = vec![];
    let mut exhaustive = true;
    for st in &stages {
        let cfg = ExploreCfg {
            bound: st.bound,
            exec: st.exec,
            wall_cap: total.saturating_sub(t0.elapsed()).max(cap.mul_f64(0.5)),
            threads,
            want_c14: st.want_c14,
        };
        let r = explore(&st.programs, &cfg);
        tot_exec += r.executions;
        tot_steps += r.steps;
        tot_prog += r.programs;
        tot_pre += r.with_preemption;
        tot_states += r.end_states;
        tot_outcomes += r.outcomes;
        if r.capped.is_some() {
            exhaustive = false;
        }
        println!(
            "  [{prop}] {}: programs={} bound={:?} schedules={} steps={} end-states={} outcomes={} max-preemptions={} {}",
            st.name, r.programs, st.bound, r.executions, r.steps, r.end_states, r.outcomes, r.max_preemptions,
            r.capped.clone().unwrap_or_default()
        );
        runs.push(json!({
            "family": st.name, "programs": r.programs, "preemption_bound": st.bound, "schedules": r.executions,
            "steps": r.steps, "distinct_end_states": r.end_states, "distinct_outcomes": r.outcomes,
            "schedules_with_preemption": r.with_preemption, "max_preemptions_used": r.max_preemptions,
            "statistics_atomics_are_scheduling_points": st.exec.yield_stats,
            "id_counter_is_scheduling_point": st.exec.yield_counter,
            "virtual_clock_step_ms": st.exec.clock_step_ms,
            "capped": r.capped,
        }));
        if r.diverged > 0 {
            report.machinery_errors.push(format!("{}: {} replayed prefixes diverged", st.name, r.diverged));
        }
        if r.nondeterministic_programs > 0 {
            report.machinery_errors.push(format!(
                "{}: {} programs gave different observations on the same schedule (harness does not own all nondeterminism)",
                st.name, r.nondeterministic_programs
            ));
        }
        for i in sample_indices(st.programs.len(), 2) {
            samples.push(json!({"family": st.name, "program": st.programs[i].describe()}));
        }
        for ((p, sig), fd) in &r.found {
            if p != prop {
                continue;
            }
            let prog = &st.programs[fd.program as usize];
            let msg = format!(
                "[{}] program {} schedule choices {:?} ({} preemption(s), {} schedule(s) in this family): {}",
                st.name, prog.describe(), fd.prefix, fd.preemptions, fd.count, fd.finding.msg
            );
            if fd.finding.known_candidate && known.is_open(prop, sig) {
                report.known(sig, msg);
                if let Some(e) = report.known.get_mut(sig) {
                    e.1 += fd.count - 1;
                }
            } else {
                report.violation(msg, replay_doc(prog, fd, prop, tier, &st.exec));
            }
        }
    }
    if prop == "C14" {
        let (n, sched_n, msgs, smp) = c14_generator(tier, cap);
        tot_exec += sched_n;
        tot_prog += n;
        tot_states += n;
        samples.extend(smp);
        runs.push(json!({"family": "UuidGenerator::next from 2-4 threads, all interleavings", "programs": n, "schedules": sched_n, "preemption_bound": Value::Null}));
        println!("  [C14] generator programs={n} schedules={sched_n}");
        for m in msgs {
            report.violation(m.clone(), json!({"engine": "sched-generator", "message": m}));
        }
    }
    if prop == "C15" {
        let (n, sched_n, msgs, smp) = c15_stats_programs(tier, cap);
        tot_exec += sched_n;
        tot_prog += n;
        samples.extend(smp);
        runs.push(json!({"family": "record_execution / record_order_added / record_order_removed from 2-3 threads on one statistics object, all interleavings", "programs": n, "schedules": sched_n, "preemption_bound": Value::Null}));
        println!("  [C15] statistics programs={n} schedules={sched_n}");
        for m in msgs {
            report.violation(m.clone(), json!({"engine": "sched-stats", "message": m}));
        }
    }
    if prop == "C08" {
        let (n, sched_n, msgs, smp) = c08_queue(tier, cap);
        tot_exec += sched_n;
        tot_prog += n;
        samples.extend(smp);
        runs.push(json!({"family": "OrderQueue push/pop/remove/find from 2-3 threads, all interleavings", "programs": n, "schedules": sched_n, "preemption_bound": Value::Null}));
        println!("  [C08] queue programs={n} schedules={sched_n}");
        for m in msgs {
            report.violation(m.clone(), json!({"engine": "sched-queue", "message": m}));
        }
    }
    if CAPPED.load(std::sync::atomic::Ordering::Relaxed) {
        exhaustive = false;
        report.cov("capped", json!("an unbounded exploration of a small program hit its wall cap (more interleavings than expected: the code under test takes more shared-memory steps per call than the unchanged tree)"));
    }
    report.add_cov_u64("states", tot_states.max(1));
    report.add_cov_u64("transitions", tot_steps.max(1));
    report.add_cov_u64("schedules", tot_exec);
    report.add_cov_u64("traces_validated_against_impl", tot_exec);
    report.add_cov_u64("programs", tot_prog);
    report.add_cov_u64("evaluations", tot_exec);
    report.add_cov_u64("distinct_nontrivial", tot_pre);
    report.add_cov_u64("distinct_outcomes", tot_outcomes);
    report.and_cov("exhaustive", exhaustive);
    report.append_cov("runs", runs);
    report.append_cov("samples", samples);
    report.concat_cov(
        "rule",
        "engine C: every program of the listed families x every interleaving within the preemption bound (None = all), one step = one hooked atomic / map / queue operation, executed on the real PriceLevel under the coroutine scheduler; states = distinct quiescent end states, transitions = scheduled steps, distinct_nontrivial = schedules with at least one preemption; each schedule is checked through the ownership ledger, the per-order conservation equation, the between-step aggregate monitor, acknowledgement truthfulness, statistics and a final draining match",
    );
    report.assumptions.extend([
        "sequentially consistent interleavings at the granularity of hooked operations (the granularity the properties state); weaker memory orderings are not explored".to_string(),
        "DashMap::iter is treated as one atomic step".to_string(),
        "statistics atomics and the id counter are not scheduling points unless stated (write-only for the properties checked: sound reduction)".to_string(),
        "2-4 threads, 1-2 operations each, preemption bound as reported".to_string(),
    ]);
}

// ---------------------------------------------------------------------------------------------
// C14: the generator on its own

fn explore_simple(
    make: &dyn Fn() -> (Vec<Box<dyn FnOnce()>>, Box<dyn FnOnce() -> Vec<String>>),
    cap: Duration,
) -> (u64, Vec<String>) {
    // single-threaded unbounded DFS over all interleavings of a tiny program
    let start = std::time::Instant::now();
    let mut stack: Vec<Work> = vec![Work { program: 0, prefix: vec![], cost: 0 }];
    let mut n = 0u64;
    let mut msgs: Vec<String> = vec![];
    while let Some(w) = stack.pop() {
        sched::begin_execution();
        let (bodies, check) = make();
        let out: RunOut = sched::run_threads(bodies, &w.prefix, 10_000, &mut |_, _| {});
        n += 1;
        if out.diverged || out.aborted {
            msgs.push(format!("machinery: execution diverged/aborted at prefix {:?}", w.prefix));
            break;
        }
        for m in check() {
            if msgs.len() < 5 {
                msgs.push(format!("{m} (schedule choices {:?})", out.points.iter().map(|p| p.chosen).collect::<Vec<_>>()));
            }
        }
        sched::children(0, w.prefix.len(), &out, None, &mut stack);
        if n % 1024 == 0 && start.elapsed() > cap {
            CAPPED.store(true, std::sync::atomic::Ordering::Relaxed);
            break;
        }
    }
    (n, msgs)
}

/// set when an exploration that is meant to be exhaustive hit its wall cap
pub static CAPPED: std::sync::atomic::AtomicBool = std::sync::atomic::AtomicBool::new(false);

fn c14_generator(tier: &str, cap: Duration) -> (u64, u64, Vec<String>, Vec<Value>) {
    let shapes: Vec<(usize, usize)> = if tier == "quick" {
        vec![(2, 1), (2, 2), (2, 3), (3, 1), (3, 2), (4, 1), (3, 3), (4, 2)]
    } else {
        vec![(2, 1), (2, 2), (2, 3), (2, 4), (3, 1), (3, 2), (3, 3), (4, 1), (4, 2), (4, 3), (5, 2)]
    };
    // asymmetric programs: one thread makes a single call while another makes many (a caller that keeps losing a race)
    let asym: Vec<usize> = if tier == "quick" { vec![6, 10] } else { vec![6, 10, 12, 16] };
    let namespaces = [NS, Uuid::nil(), Uuid::from_u128(u128::MAX)];
    let results: Vec<(u64, u64, Vec<String>, Value)> = std::thread::scope(|sc| {
        let mut hs = vec![];
        let mut all_shapes: Vec<(usize, usize, usize, bool)> = shapes.iter().map(|(k, n)| (*k, *n, *n, false)).collect();
        for m in &asym {
            all_shapes.push((2, 1, *m, false));
        }
        // "victim" programs: thread 0 fine-grained, the others scheduled only between their calls
        for (k, a, b) in [(2usize, 1usize, 12usize), (2, 1, 24), (2, 2, 16), (3, 1, 8)] {
            all_shapes.push((k, a, b, true));
        }
        for (k, n_first, n, victim) in all_shapes.iter().copied() {
            for ns in namespaces {
                if (n_first != n || victim) && ns != NS {
                    continue;
                }
                hs.push(sc.spawn(move || {
                    sched::install_hook();
                    let make = move || {
                        let g = Rc::new(UuidGenerator::new(ns));
                        let got: Rc<RefCell<Vec<Uuid>>> = Rc::new(RefCell::new(vec![]));
                        let mut bodies: Vec<Box<dyn FnOnce()>> = vec![];
                        for t in 0..k {
                            let g = g.clone();
                            let got = got.clone();
                            let n = if t == 0 { n_first } else { n };
                            bodies.push(Box::new(move || {
                                if victim && t != 0 {
                                    sched::set_coarse(t, true);
                                }
                                for _ in 0..n {
                                    if victim && t != 0 {
                                        sched::yield_point();
                                    }
                                    let id = g.next();
                                    got.borrow_mut().push(id);
                                }
                            }));
                        }
                        let check: Box<dyn FnOnce() -> Vec<String>> = Box::new(move || {
                            let ids = got.borrow().clone();
                            let total = n_first + (k - 1) * n;
                            let set: HashSet<Uuid> = ids.iter().copied().collect();
                            let expect: HashSet<Uuid> = (0..total)
                                .map(|i| Uuid::new_v5(&ns, i.to_string().as_bytes()))
                                .collect();
                            let mut m = vec![];
                            if ids.len() != total || set.len() != total {
                                m.push(format!("C14 {k} threads x {n} calls: {} ids returned, {} distinct (duplicate id)", ids.len(), set.len()));
                            } else if set != expect {
                                m.push(format!("C14 {k} threads x {n} calls: the ids are not the first {total} ids of the namespace"));
                            }
                            // reproducibility: a second generator with the same namespace, called sequentially
                            let g2 = UuidGenerator::new(ns);
                            let seq: Vec<Uuid> = sched::as_harness(false, || (0..total).map(|_| g2.next()).collect());
                            let expect_seq: Vec<Uuid> = (0..total).map(|i| Uuid::new_v5(&ns, i.to_string().as_bytes())).collect();
                            if seq != expect_seq {
                                m.push(format!("C14 a fresh generator with the same namespace does not reproduce the id sequence"));
                            }
                            m
                        });
                        (bodies, check)
                    };
                    let (cnt, msgs) = explore_simple(&make, cap);
                    sched::uninstall_hook();
                    (1u64, cnt, msgs, json!({"threads": k, "calls_first_thread": n_first, "calls_per_other_thread": n, "other_threads_call_atomic": victim, "namespace": ns.to_string(), "schedules": cnt}))
                }));
            }
        }
        hs.into_iter().map(|h| h.join().unwrap()).collect()
    });
    let mut progs = 0;
    let mut scheds = 0;
    let mut msgs = vec![];
    let mut smp = vec![];
    // sequential sweep: every counter value 0..N, and every decimal-length boundary up to u64::MAX
    {
        let n: u64 = if tier == "quick" { 300_000 } else { 5_000_000 };
        for ns in namespaces {
            let g = UuidGenerator::new(ns);
            let mut seen: HashSet<Uuid> = HashSet::with_capacity(n as usize);
            for i in 0..n {
                let id = g.next();
                let want = Uuid::new_v5(&ns, i.to_string().as_bytes());
                if id != want {
                    msgs.push(format!("C14 sequential call number {i} returned {id}, not the name-based id of (namespace, {i}) - a replayed run would not reproduce its ids"));
                    break;
                }
                if !seen.insert(id) {
                    msgs.push(format!("C14 sequential call number {i} returned an id that an earlier call had returned"));
                    break;
                }
            }
            scheds += 1;
        }
        // a generator resumed (through its serde form) just below every power of ten and at the 64-bit limit
        let mut starts: Vec<u64> = vec![];
        let mut p: u64 = 10;
        loop {
            starts.push(p - 3);
            match p.checked_mul(10) {
                Some(x) => p = x,
                None => break,
            }
        }
        starts.extend([(1u64 << 32) - 3, (1u64 << 53) - 3, u64::MAX - 6]);
        for st in starts {
            let j = format!("{{\"namespace\":\"{}\",\"counter\":{}}}", NS, st);
            match serde_json::from_str::<UuidGenerator>(&j) {
                Ok(g) => {
                    let mut got = HashSet::new();
                    for k in 0..6u64 {
                        let id = g.next();
                        let want = Uuid::new_v5(&NS, (st + k).to_string().as_bytes());
                        if id != want || !got.insert(id) {
                            msgs.push(format!("C14 call with counter {} returned {id}, not the name-based id of that counter value", st + k));
                            break;
                        }
                    }
                    scheds += 1;
                }
                Err(e) => msgs.push(format!("machinery: cannot resume a generator from {j}: {e}")),
            }
        }
        smp.push(json!({"sequential_calls_checked_per_namespace": n}));
    }
    for (p, s, m, v) in results {
        progs += p;
        scheds += s;
        msgs.extend(m);
        if smp.len() < 4 {
            smp.push(v);
        }
    }
    msgs.sort();
    msgs.dedup();
    (progs, scheds, msgs, smp)
}

// ---------------------------------------------------------------------------------------------
// C08: the exported queue from several threads

#[derive(Clone, Copy, Debug, PartialEq, Eq)]
enum QOp {
    PushOwn,
    Pop,
    Remove(u64),
    Find(u64),
}

fn c08_queue(tier: &str, cap: Duration) -> (u64, u64, Vec<String>, Vec<Value>) {
    let alpha = [QOp::PushOwn, QOp::Pop, QOp::Remove(1), QOp::Remove(2), QOp::Find(1)];
    // thread programs of 1 or 2 operations (at most one push per thread)
    let mut tprogs: Vec<Vec<QOp>> = alpha.iter().map(|a| vec![*a]).collect();
    for a in alpha {
        for b in alpha {
            if a == QOp::PushOwn && b == QOp::PushOwn {
                continue;
            }
            tprogs.push(vec![a, b]);
        }
    }
    let mut programs: Vec<(usize, Vec<Vec<QOp>>)> = vec![];
    for preload in 0..=2usize {
        for i in 0..tprogs.len() {
            for j in i..tprogs.len() {
                programs.push((preload, vec![tprogs[i].clone(), tprogs[j].clone()]));
            }
        }
        // three threads of one operation each
        let singles: Vec<Vec<QOp>> = alpha.iter().map(|a| vec![*a]).collect();
        for i in 0..singles.len() {
            for j in i..singles.len() {
                for k in j..singles.len() {
                    programs.push((preload, vec![singles[i].clone(), singles[j].clone(), singles[k].clone()]));
                }
            }
        }
        if tier != "quick" {
            // three threads, one of them with two operations
            for t2 in tprogs.iter().filter(|t| t.len() == 2) {
                for i in 0..singles.len() {
                    for j in i..singles.len() {
                        programs.push((preload, vec![t2.clone(), singles[i].clone(), singles[j].clone()]));
                    }
                }
            }
        }
    }
    let nthreads = crate::seq_checks::threads();
    let chunk = programs.len().div_ceil(nthreads);
    let results: Vec<(u64, Vec<String>)> = std::thread::scope(|sc| {
        let mut hs = vec![];
        for ch in programs.chunks(chunk.max(1)) {
            hs.push(sc.spawn(move || {
                sched::install_hook();
                let mut total = 0u64;
                let mut msgs = vec![];
                for (preload, threads) in ch {
                    let preload = *preload;
                    let threads2 = threads.clone();
                    let make = move || {
                        let q = Rc::new(OrderQueue::new());
                        sched::as_harness(true, || {
                            for id in 1..=preload as u64 {
                                q.push(Arc::new(mk_ts(Tmpl::S5, id, LEVEL_PRICE, id)));
                            }
                        });
                        let handed: Rc<RefCell<Vec<u128>>> = Rc::new(RefCell::new(vec![]));
                        let mut pushed: Vec<u128> = (1..=preload as u128).collect();
                        let mut bodies: Vec<Box<dyn FnOnce()>> = vec![];
                        for (tid, ops) in threads2.iter().enumerate() {
                            let q = q.clone();
                            let handed = handed.clone();
                            let ops = ops.clone();
                            if ops.contains(&QOp::PushOwn) {
                                pushed.push(10 + tid as u128);
                            }
                            bodies.push(Box::new(move || {
                                for op in ops {
                                    match op {
                                        QOp::PushOwn => q.push(Arc::new(mk_ts(Tmpl::S4, 10 + tid as u64, LEVEL_PRICE, 20 + tid as u64))),
                                        QOp::Pop => {
                                            if let Some(o) = q.pop() {
                                                handed.borrow_mut().push(rec(&o).id);
                                            }
                                        }
                                        QOp::Remove(id) => {
                                            if let Some(o) = q.remove(oid(id)) {
                                                handed.borrow_mut().push(rec(&o).id);
                                            }
                                        }
                                        QOp::Find(id) => {
                                            let _ = q.find(oid(id));
                                        }
                                    }
                                }
                            }));
                        }
                        let desc = format!("preload {preload}, threads {threads2:?}");
                        let check: Box<dyn FnOnce() -> Vec<String>> = Box::new(move || {
                            sched::as_harness(false, || {
                                let mut m = vec![];
                                let listed: Vec<u128> = q.to_vec().iter().map(|o| rec(o).id).collect();
                                let len = q.len();
                                let mut drained = vec![];
                                for _ in 0..16 {
                                    match q.pop() {
                                        Some(o) => drained.push(rec(&o).id),
                                        None => break,
                                    }
                                }
                                let mut l = listed.clone();
                                l.sort();
                                let mut d = drained.clone();
                                d.sort();
                                if l != d || len != listed.len() {
                                    m.push(format!("C08 queue [{desc}]: orders listed at quiescence {listed:?} (len {len}) but a sequential drain by pop hands out {drained:?} (stranded or phantom order)"));
                                }
                                let mut all = handed.borrow().clone();
                                all.extend(drained);
                                all.sort();
                                let mut want = pushed.clone();
                                want.sort();
                                if all != want {
                                    m.push(format!("C08 queue [{desc}]: orders handed out by pops + removes + drain {all:?} != orders handed to the queue {want:?} (an order was handed out twice or never)"));
                                }
                                if !q.is_empty() || q.len() != 0 {
                                    m.push(format!("C08 queue [{desc}]: not empty after the drain"));
                                }
                                m
                            })
                        });
                        (bodies, check)
                    };
                    let (n, ms) = explore_simple(&make, cap);
                    total += n;
                    for x in ms {
                        if msgs.len() < 5 {
                            msgs.push(x);
                        }
                    }
                }
                sched::uninstall_hook();
                (total, msgs)
            }));
        }
        hs.into_iter().map(|h| h.join().unwrap()).collect()
    });
    let mut scheds = 0;
    let mut msgs = vec![];
    for (s, m) in results {
        scheds += s;
        msgs.extend(m);
    }
    msgs.sort();
    msgs.dedup();
    let smp = sample_indices(programs.len(), 3)
        .into_iter()
        .map(|i| json!({"queue_program": format!("{:?}", programs[i])}))
        .collect();
    (programs.len() as u64, scheds, msgs, smp)
}

/// `plverif replay` for schedules found by engine C
pub fn replay(doc: &Value) -> i32 {
    let rp = &doc["replay"];
    let Ok(prog) = serde_json::from_value::<ProgramDe>(rp["program"].clone()) else {
        eprintln!("replay: cannot read the program");
        return 2;
    };
    let prog = prog.into_program();
    let prefix: Vec<u8> = rp["schedule_choices"]
        .as_array()
        .map(|a| a.iter().map(|v| v.as_u64().unwrap_or(0) as u8).collect())
        .unwrap_or_default();
    let cfg = ExecCfg {
        yield_stats: rp["yield_stats"].as_bool().unwrap_or(false),
        yield_counter: rp["yield_counter"].as_bool().unwrap_or(false),
        max_steps: rp["max_steps"].as_u64().unwrap_or(4000) as u32,
        clock_step_ms: rp["clock_step_ms"].as_u64(),
    };
    let prop = rp["property"].as_str().unwrap_or("");
    sched::install_hook();
    let a = execute(&prog, &prefix, &cfg);
    let b = execute(&prog, &prefix, &cfg);
    sched::uninstall_hook();
    println!("program: {}", prog.describe());
    println!("schedule: {:?}", a.out.points.iter().map(|p| p.tid).collect::<Vec<_>>());
    for e in a.log.iter().filter(|e| e.tid >= 0) {
        println!(
            "  step {:3} thread {} op {} {:?} {:?} obj{} key={:?} found={} vis={} hid={} old={} new={}",
            e.step, e.tid, e.opi, e.ev.class, e.ev.kind, e.ev.obj,
            e.ev.key.map(|k| u64::from_be_bytes(k[..8].try_into().unwrap())), e.ev.found, e.ev.vis, e.ev.hid, e.ev.old, e.ev.new
        );
    }
    for (t, r) in a.results.iter().enumerate() {
        println!("  thread {t} results: {r:?}");
    }
    println!("  quiescent: {}", a.quiescent.describe());
    if !same_log(&a, &b) || a.results != b.results || a.quiescent != b.quiescent || a.out.diverged {
        println!("MACHINERY-ERROR: replay diverged between two executions");
        return 2;
    }
    let fs: Vec<Finding> = evaluate(&prog, &a, cfg.yield_counter)
        .into_iter()
        .filter(|f| f.prop == prop)
        .collect();
    for f in &fs {
        println!("  finding [{} {}]: {}", f.prop, f.sig, f.msg);
    }
    println!("replay deterministic: yes; finding reproduced: {}", if fs.is_empty() { "no" } else { "yes" });
    if fs.is_empty() { 0 } else { 1 }
}

#[derive(serde::Deserialize)]
struct ProgramDe {
    book: Value,
    threads: Vec<Vec<Value>>,
    #[serde(default)]
    coarse: Vec<bool>,
}

impl ProgramDe {
    fn into_program(self) -> Program {
        if let Some(o) = self.book.as_object() {
            let book = if let Some(n) = o.get("Hist").and_then(|v| v.as_u64()) {
                Book::Hist(n as u16)
            } else {
                Book::Dead(o.get("Dead").and_then(|v| v.as_u64()).unwrap_or(0) as u16)
            };
            let threads = self.threads.iter().map(|t| t.iter().map(op_from_value).collect()).collect();
            return Program { book, threads, coarse: self.coarse };
        }
        let book = match self.book.as_str().unwrap_or("") {
            "B1" => Book::B1,
            "B2" => Book::B2,
            "B3" => Book::B3,
            "B4" => Book::B4,
            "B6" => Book::B6,
            "B7" => Book::B7,
            "B8" => Book::B8,
            "B9" => Book::B9,
            "B10" => Book::B10,
            "B11" => Book::B11,
            "B12" => Book::B12,
            _ => Book::B5,
        };
        let op = op_from_value;
        Program {
            book,
            threads: self.threads.iter().map(|t| t.iter().map(op).collect()).collect(),
            coarse: self.coarse,
        }
    }
}


/// Machinery self-test (not a property check): every outcome that real, free-running OS threads produce for a
/// program must be among the outcomes the scheduler's *unbounded* exploration of that program found. A real outcome
/// outside the explored set would mean the hook layer does not see every interleaving.
pub fn validate_scheduler(rounds: usize) -> i32 {
    let alpha = thread_alphabet();
    let mut wide = alpha.clone();
    wide.extend([COp::AddIce, COp::Amend(1, 0), COp::MoveVia(2, 1), COp::AmendVia(1, 1, 2)]);
    let programs = programs_1op(2, &[Book::B1, Book::B2, Book::B3, Book::B7], &wide);
    let mut bad = 0u64;
    let mut total_real = 0u64;
    let mut seen_real = 0u64;
    let mut explored = 0u64;
    let threads = crate::seq_checks::threads();
    for (i, p) in programs.iter().enumerate() {
        let cfg = ExploreCfg {
            bound: None,
            exec: ExecCfg { yield_stats: false, yield_counter: false, max_steps: 4000, clock_step_ms: None },
            wall_cap: Duration::from_secs(120),
            threads,
            want_c14: false,
        };
        let r = explore(std::slice::from_ref(p), &cfg);
        if r.capped.is_some() {
            continue;
        }
        explored += r.outcome_set.len() as u64;
        let mut real = std::collections::HashSet::new();
        for _ in 0..rounds {
            real.insert(run_real_threads(p));
            total_real += 1;
        }
        seen_real += real.len() as u64;
        for h in &real {
            if !r.outcome_set.contains(h) {
                bad += 1;
                println!("OUTSIDE: program {} produced an outcome under real threads that the exploration ({} schedules, {} outcomes) did not find", p.describe(), r.executions, r.outcome_set.len());
            }
        }
        if i % 40 == 0 {
            println!("  validated {}/{} programs ...", i, programs.len());
        }
    }
    println!("validate-sched: {} programs, {} real executions, {} distinct real outcomes, all inside the {} explored outcomes: {}", programs.len(), total_real, seen_real, explored, bad == 0);
    if bad == 0 { 0 } else { 2 }
}


/// C15, statistics object on its own: k threads call `record_execution` / `record_order_added` / `record_order_removed`
/// on one shared `PriceLevelStatistics` (the level's own), every interleaving of the counter steps, no bound.
pub fn c15_stats_programs(tier: &str, cap: Duration) -> (u64, u64, Vec<String>, Vec<Value>) {
    use pricelevel::PriceLevel;
    let shapes: Vec<(usize, usize)> = if tier == "quick" {
        vec![(1, 1), (1, 2), (1, 3), (1, 4)]
    } else {
        vec![(1, 1), (1, 2), (2, 2), (1, 4), (1, 5), (1, 6)]
    };
    // "victim" programs: thread 0 is scheduled at every counter step, the other thread(s) only between their calls -
    // a thread that keeps losing a race against many complete calls of the others (cheap: few interleavings)
    let victim_shapes: Vec<(usize, usize, usize)> = if tier == "quick" {
        vec![(2, 1, 6), (2, 1, 12), (3, 1, 4), (2, 2, 8)]
    } else {
        vec![(2, 1, 6), (2, 1, 12), (2, 1, 24), (3, 1, 4), (2, 2, 8), (2, 2, 12)]
    };
    let mut all: Vec<(usize, usize, usize, bool)> = vec![];
    for (n_first, n_other) in shapes.iter().copied() {
        // (three fine-grained threads of 7 steps each already have 4*10^8 interleavings: three threads only as victim programs)
        all.push((2usize, n_first, n_other, false));
    }
    for (k, a, b) in victim_shapes {
        all.push((k, a, b, true));
    }
    let results: Vec<(u64, Vec<String>, Value)> = std::thread::scope(|sc| {
        let mut hs = vec![];
        for (k, n_first, n_other, victim) in all.iter().copied() {
            {
                hs.push(sc.spawn(move || {
                    sched::install_hook();
                    let make = move || {
                        let level = Rc::new(PriceLevel::new(LEVEL_PRICE));
                        let mut bodies: Vec<Box<dyn FnOnce()>> = vec![];
                        let mut calls = 0u64;
                        let mut qty = 0u64;
                        for t in 0..k {
                            let level = level.clone();
                            let n = if t == 0 { n_first } else { n_other };
                            for i in 0..n {
                                calls += 1;
                                qty += (t * 10 + i + 1) as u64;
                            }
                            bodies.push(Box::new(move || {
                                let st = level.stats();
                                if victim && t != 0 {
                                    sched::set_coarse(t, true);
                                }
                                for i in 0..n {
                                    if victim && t != 0 {
                                        sched::yield_point();
                                    }
                                    st.record_execution((t * 10 + i + 1) as u64, LEVEL_PRICE, 1);
                                    if i == 0 {
                                        st.record_order_added();
                                        st.record_order_removed();
                                    }
                                }
                            }));
                        }
                        let check: Box<dyn FnOnce() -> Vec<String>> = Box::new(move || {
                            sched::as_harness(false, || {
                                let st = level.stats();
                                let mut m = vec![];
                                if st.orders_executed() as u64 != calls
                                    || st.quantity_executed() != qty
                                    || st.value_executed() != qty * LEVEL_PRICE
                                    || st.orders_added() != k
                                    || st.orders_removed() != k
                                {
                                    m.push(format!(
                                        "C15 statistics after {calls} recorded executions from {k} threads: executed={} qty={} value={} added={} removed={} (expected {calls}, {qty}, {}, {k}, {k})",
                                        st.orders_executed(), st.quantity_executed(), st.value_executed(), st.orders_added(), st.orders_removed(), qty * LEVEL_PRICE
                                    ));
                                }
                                m
                            })
                        });
                        (bodies, check)
                    };
                    let (cnt, msgs) = explore_simple(&make, cap);
                    sched::uninstall_hook();
                    (cnt, msgs, json!({"statistics_program": {"threads": k, "calls_first_thread": n_first, "calls_other_threads": n_other, "other_threads_call_atomic": victim, "schedules": cnt}}))
                }));
            }
        }
        hs.into_iter().map(|h| h.join().unwrap()).collect()
    });
    let mut scheds = 0;
    let mut msgs = vec![];
    let mut smp = vec![];
    let n = results.len() as u64;
    for (s, m, v) in results {
        scheds += s;
        msgs.extend(m);
        if smp.len() < 3 {
            smp.push(v);
        }
    }
    msgs.sort();
    msgs.dedup();
    (n, scheds, msgs, smp)
}

/// [Restore || w] for every writer w, and [Restore || w1 || w2] (all pairs when `full`, else pairs with an add)
fn restore_programs(books: &[Book], alpha: &[COp], full: bool) -> Vec<Program> {
    reader_programs(COp::Restore, books, alpha, full)
}

fn reader_programs(reader: COp, books: &[Book], alpha: &[COp], full: bool) -> Vec<Program> {
    let writers: Vec<COp> = alpha.iter().copied().filter(|o| !matches!(o, COp::Read | COp::Restore | COp::Show | COp::ShowJson)).collect();
    let mut v = vec![];
    for b in books {
        for (i, w) in writers.iter().enumerate() {
            v.push(Program { book: *b, threads: vec![vec![reader], vec![*w]], coarse: vec![] });
            for w2 in writers.iter().skip(i) {
                let both_add = matches!(w, COp::Add | COp::AddIce) && matches!(w2, COp::Add | COp::AddIce);
                if both_add || !(full || matches!(w, COp::Add) || matches!(w2, COp::Add)) {
                    continue;
                }
                v.push(Program { book: *b, threads: vec![vec![reader], vec![*w], vec![*w2]], coarse: vec![] });
            }
        }
    }
    v
}

fn op_from_value(v: &Value) -> COp {
            if let Some(s) = v.as_str() {
                return match s {
                    "Add" => COp::Add,
                    "AddIce" => COp::AddIce,
                    "Restore" => COp::Restore,
                    "Show" => COp::Show,
                    "ShowJson" => COp::ShowJson,
                    _ => COp::Read,
                };
            }
            if let Some(o) = v.as_object() {
                if let Some(x) = o.get("Match") {
                    return COp::Match(x.as_u64().unwrap_or(0));
                }
                if let Some(x) = o.get("Cancel") {
                    return COp::Cancel(x.as_u64().unwrap_or(0));
                }
                if let Some(x) = o.get("Move") {
                    return COp::Move(x.as_u64().unwrap_or(0));
                }
                if let Some(x) = o.get("MoveVia") {
                    let a = x.as_array().cloned().unwrap_or_default();
                    return COp::MoveVia(
                        a.first().and_then(|v| v.as_u64()).unwrap_or(1) as u8,
                        a.get(1).and_then(|v| v.as_u64()).unwrap_or(0),
                    );
                }
                if let Some(x) = o.get("AmendVia") {
                    let a = x.as_array().cloned().unwrap_or_default();
                    return COp::AmendVia(
                        a.first().and_then(|v| v.as_u64()).unwrap_or(1) as u8,
                        a.get(1).and_then(|v| v.as_u64()).unwrap_or(0),
                        a.get(2).and_then(|v| v.as_u64()).unwrap_or(0),
                    );
                }
                if let Some(x) = o.get("Amend") {
                    let a = x.as_array().cloned().unwrap_or_default();
                    return COp::Amend(
                        a.first().and_then(|v| v.as_u64()).unwrap_or(0),
                        a.get(1).and_then(|v| v.as_u64()).unwrap_or(0),
                    );
                }
            }
            COp::Read
        }
