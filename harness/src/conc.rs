//! Engine C on the price level: enumerated programs, execution under the scheduler, the ownership
//! ledger reconstructed from the map events, and the oracles for C03 C08 C12 C13 C14(level part) C15.

use crate::common::*;
use crate::model::*;
use crate::sched::{self, LogEntry, RunOut, Work};
use crate::seq_level::{DRAIN_QTY, NS};
use pricelevel::verif_hooks::{Class, Kind, Phase};
use pricelevel::{OrderUpdate, PriceLevel, UuidGenerator};
use serde::Serialize;
use serde_json::{Value, json};
use std::cell::{Cell, RefCell};
use std::collections::{BTreeMap, HashMap, HashSet};
use std::rc::Rc;
use std::sync::Mutex;
use std::sync::atomic::{AtomicBool, AtomicU64, AtomicUsize, Ordering};
use std::time::{Duration, Instant};
use uuid::Uuid;

#[derive(Clone, Copy, Debug, PartialEq, Eq, Hash, PartialOrd, Ord, Serialize)]
pub enum COp {
    /// add S4 under an id private to the issuing thread
    Add,
    /// add IC(2,2) under an id private to the issuing thread
    AddIce,
    Match(u64),
    Cancel(u64),
    Amend(u64, u64),
    Move(u64),
    Read,
    /// price move through another update kind: 1 = UpdatePriceAndQuantity, 2 = Replace (other price)
    MoveVia(u8, u64),
    /// same-price amendment through another update kind: 1 = UpdatePriceAndQuantity, 2 = Replace (level price)
    AmendVia(u8, u64, u64),
    /// a reader that takes a snapshot while the writers run (fine-grained), rebuilds a level from it, empties
    /// that level with a draining match (both call-atomic) and reads its aggregates
    Restore,
    /// a reader that prints the level as text while the writers run and parses the text back (call-atomically)
    Show,
    /// the same through the JSON form
    ShowJson,
}

impl COp {
    /// the operation as the oracles see it (the update kind does not matter to them)
    pub fn canon(&self) -> COp {
        match *self {
            COp::MoveVia(_, id) => COp::Move(id),
            COp::AmendVia(_, id, n) => COp::Amend(id, n),
            o => o,
        }
    }
}

#[derive(Clone, Copy, Debug, PartialEq, Eq, Hash, PartialOrd, Ord, Serialize)]
pub enum Book {
    B1,
    B2,
    B3,
    B4,
    /// three orders: IC(2,3) S5 S3
    B5,
    /// two special orders: IC(2,3) and RS(3,6,thr 2,amt 2,auto)
    B6,
    /// a level that is not fresh: S10#1 S5#2 S3#3, then (before the threads start) #3 is cancelled and #1 is
    /// amended to the quantity it already has - the ticket queue holds a stale and a duplicate ticket
    B7,
    /// a fully hidden auto-replenishing reserve order in front: RS(0,4,thr 1,amt 2,auto) S5
    B8,
    /// a large book: 70 Standard(2) orders #100..#169
    B9,
    /// the large book after its 36 oldest orders were cancelled (a long run of stale tickets at the head)
    B10,
    /// a reserve order whose hidden part is smaller than its replenish amount: RS(4,1,thr 3,amt 5,auto) S5
    B11,
    /// a dormant order in front (nothing displayed, cannot replenish): IC(0,2) S5 S3
    B12,
    /// S10 S5 S3 after n same-price amendments of #1 (n around 1024: a level with a long history; thresholds on
    /// the number of removals / stale tickets are crossed by the *next* operation)
    Hist(u16),
    /// the 70-order book after k of its orders were cancelled (k around 64: dead tickets outnumber the live orders)
    Dead(u16),
}

/// operations applied to the book before the threads start (start from a non-initial state)
pub fn book_prelude(b: Book) -> Vec<OrderUpdate> {
    match b {
        Book::B10 => (0..36).map(|i| OrderUpdate::Cancel { order_id: oid(100 + i) }).collect(),
        Book::Dead(k) => (0..k as u64).map(|i| OrderUpdate::Cancel { order_id: oid(100 + i) }).collect(),
        Book::Hist(n) => (0..n)
            .map(|_| OrderUpdate::UpdateQuantity {
                order_id: oid(1),
                new_quantity: 10,
            })
            .collect(),
        Book::B7 => vec![
            OrderUpdate::Cancel { order_id: oid(3) },
            OrderUpdate::UpdateQuantity {
                order_id: oid(1),
                new_quantity: 10,
            },
        ],
        _ => vec![],
    }
}

pub const BOOKS4: [Book; 4] = [Book::B1, Book::B2, Book::B3, Book::B4];

pub fn book_orders(b: Book) -> Vec<Ord_> {
    let p = LEVEL_PRICE;
    match b {
        Book::B1 => vec![mk_ts(Tmpl::S10, 1, p, 1), mk_ts(Tmpl::S5, 2, p, 2)],
        Book::B2 => vec![mk_ts(Tmpl::IC34, 1, p, 1), mk_ts(Tmpl::S5, 2, p, 2)],
        Book::B3 => vec![mk_ts(Tmpl::RS36, 1, p, 1), mk_ts(Tmpl::S5, 2, p, 2)],
        Book::B4 => vec![mk_ts(Tmpl::RSn, 1, p, 1), mk_ts(Tmpl::S5, 2, p, 2)],
        Book::B6 => vec![mk_ts(Tmpl::IC23, 1, p, 1), mk_ts(Tmpl::RS36, 2, p, 2)],
        Book::B8 => vec![mk_ts(Tmpl::RSh, 1, p, 1), mk_ts(Tmpl::S5, 2, p, 2)],
        // #2 and #3 share their timestamp (a tie in every listing)
        Book::B12 => vec![
            mk_ts(Tmpl::IC02, 1, p, 1),
            mk_ts(Tmpl::S5, 2, p, 2),
            mk_ts(Tmpl::S3, 3, p, 2),
        ],
        Book::B9 | Book::B10 | Book::Dead(_) => (0..70).map(|i| crate::seq_level::bulk_order(i, p)).collect(),
        Book::Hist(_) => vec![
            mk_ts(Tmpl::S10, 1, p, 1),
            mk_ts(Tmpl::S5, 2, p, 2),
            mk_ts(Tmpl::S3, 3, p, 3),
        ],
        Book::B11 => vec![
            crate::seq_level::set_id_ts(
                &pricelevel::OrderType::ReserveOrder {
                    id: oid(1),
                    price: p,
                    visible_quantity: 4,
                    hidden_quantity: 1,
                    side: pricelevel::Side::Buy,
                    timestamp: 1,
                    time_in_force: pricelevel::TimeInForce::Gtc,
                    replenish_threshold: 3,
                    replenish_amount: Some(5),
                    auto_replenish: true,
                    extra_fields: (),
                },
                oid(1),
                1,
            ),
            mk_ts(Tmpl::S5, 2, p, 2),
        ],
        Book::B7 => vec![
            mk_ts(Tmpl::S10, 1, p, 1),
            mk_ts(Tmpl::S5, 2, p, 2),
            mk_ts(Tmpl::S3, 3, p, 3),
        ],
        Book::B5 => vec![
            mk_ts(Tmpl::IC23, 1, p, 1),
            mk_ts(Tmpl::S5, 2, p, 2),
            mk_ts(Tmpl::S3, 3, p, 3),
        ],
    }
}

pub fn added_order(op: COp, tid: usize) -> Ord_ {
    let id = 10 + tid as u64;
    match op {
        COp::AddIce => mk_ts(Tmpl::IC23, id, LEVEL_PRICE, 20 + tid as u64),
        _ => mk_ts(Tmpl::S4, id, LEVEL_PRICE, 20 + tid as u64),
    }
}

#[derive(Clone, Debug, PartialEq, Eq, Hash, PartialOrd, Ord, Serialize)]
pub struct Program {
    pub book: Book,
    pub threads: Vec<Vec<COp>>,
    /// threads scheduled only between their API calls (whole calls are atomic); empty = all fine-grained
    #[serde(default)]
    pub coarse: Vec<bool>,
}

impl Program {
    pub fn describe(&self) -> String {
        format!(
            "{:?} [{}]",
            self.book,
            self.threads
                .iter()
                .enumerate()
                .map(|(i, t)| {
                    format!(
                        "{}{}",
                        if self.coarse.get(i).copied().unwrap_or(false) { "call-atomic:" } else { "" },
                        t.iter().map(|o| format!("{o:?}")).collect::<Vec<_>>().join(";")
                    )
                })
                .collect::<Vec<_>>()
                .join(" || ")
        )
    }
}

#[derive(Clone, Debug, PartialEq, Eq)]
pub enum OpResult {
    Added,
    Matched(MatchObs, Vec<Uuid>),
    Updated(UpdObs),
    Read(u64, u64, usize),
    /// a printed form was parsed back: Ok, or the parser's complaint with the text
    Shown(Option<String>),
    Panicked(String),
}

#[derive(Clone, Copy, Debug)]
pub struct ExecCfg {
    pub yield_stats: bool,
    pub yield_counter: bool,
    pub max_steps: u32,
    /// `Some(ms)`: the library's clock readings are answered by a virtual clock advancing `ms` per reading
    pub clock_step_ms: Option<u64>,
}

#[derive(Clone, Debug, Default)]
pub struct Objs {
    pub vis: u64,
    pub hid: u64,
    pub count: u64,
    pub map: u64,
    pub queue: u64,
    pub stats: Vec<u64>,
    pub counter: u64,
}

pub struct Exec {
    pub out: RunOut,
    pub log: Vec<LogEntry>,
    pub results: Vec<Vec<OpResult>>,
    pub quiescent: LevelObs,
    pub stats: (usize, usize, u64, u64),
    pub drain: OpResult,
    pub post_drain: LevelObs,
    pub monitor: Vec<String>,
    pub objs: Objs,
    pub other_ops: u64,
}

struct Shared {
    book: Vec<Ord_>,
    level: PriceLevel,
    generator: UuidGenerator,
    results: RefCell<Vec<Vec<OpResult>>>,
}

thread_local! {
    static ABORTING: Cell<bool> = const { Cell::new(false) };
}

fn run_op(sh: &Shared, tid: usize, op: COp) -> OpResult {
    run_op_on(&sh.level, &sh.generator, &sh.book, tid, op)
}

pub struct ShView<'a> {
    level: &'a PriceLevel,
    generator: &'a UuidGenerator,
    book: &'a [Ord_],
}

pub fn run_op_on(level: &PriceLevel, generator: &UuidGenerator, book: &[Ord_], tid: usize, op: COp) -> OpResult {
    let sh = ShView { level, generator, book };
    let sh = &sh;
    match op {
        COp::Add | COp::AddIce => {
            sh.level.add_order(added_order(op, tid));
            OpResult::Added
        }
        COp::Match(q) => {
            let r = sh
                .level
                .match_order(q, oid(900 + tid as u64), sh.generator);
            let ids = r
                .transactions
                .as_vec()
                .iter()
                .map(|t| t.transaction_id)
                .collect();
            OpResult::Matched(match_obs(&r), ids)
        }
        COp::Cancel(id) => OpResult::Updated(upd_obs(
            &sh.level.update_order(OrderUpdate::Cancel { order_id: oid(id) }),
        )),
        COp::Move(id) => OpResult::Updated(upd_obs(&sh.level.update_order(
            OrderUpdate::UpdatePrice {
                order_id: oid(id),
                new_price: OTHER_PRICE,
            },
        ))),
        COp::Amend(id, n) => OpResult::Updated(upd_obs(&sh.level.update_order(
            OrderUpdate::UpdateQuantity {
                order_id: oid(id),
                new_quantity: n,
            },
        ))),
        COp::MoveVia(k, id) => OpResult::Updated(upd_obs(&sh.level.update_order(if k == 1 {
            OrderUpdate::UpdatePriceAndQuantity {
                order_id: oid(id),
                new_price: OTHER_PRICE,
                new_quantity: 1,
            }
        } else {
            OrderUpdate::Replace {
                order_id: oid(id),
                price: OTHER_PRICE,
                quantity: 1,
                side: sh
                    .book
                    .iter()
                    .find(|o| same_id(o_id(o), oid(id)))
                    .map(o_side)
                    .unwrap_or(pricelevel::Side::Buy),
            }
        }))),
        COp::AmendVia(k, id, n) => OpResult::Updated(upd_obs(&sh.level.update_order(if k == 1 {
            OrderUpdate::UpdatePriceAndQuantity {
                order_id: oid(id),
                new_price: LEVEL_PRICE,
                new_quantity: n,
            }
        } else {
            OrderUpdate::Replace {
                order_id: oid(id),
                price: LEVEL_PRICE,
                quantity: n,
                side: pricelevel::Side::Buy,
            }
        }))),
        COp::Read => {
            let s = sh.level.snapshot();
            OpResult::Read(s.visible_quantity, s.hidden_quantity, s.order_count)
        }
        COp::Show | COp::ShowJson => {
            use std::str::FromStr;
            let text = if op == COp::Show { Ok(sh.level.to_string()) } else { serde_json::to_string(sh.level).map_err(|e| e.to_string()) };
            let was_coarse = sched::is_coarse(tid);
            sched::set_coarse(tid, true);
            let verdict = match text {
                Err(e) => Some(format!("the level could not be serialized: {e}")),
                Ok(t) => {
                    let r = if op == COp::Show {
                        PriceLevel::from_str(&t).map(|_| ()).map_err(|e| e.to_string())
                    } else {
                        serde_json::from_str::<PriceLevel>(&t).map(|_| ()).map_err(|e| e.to_string())
                    };
                    r.err().map(|e| format!("{e}; text: {t}"))
                }
            };
            sched::set_coarse(tid, was_coarse);
            OpResult::Shown(verdict)
        }
        COp::Restore => {
            let s = sh.level.snapshot();
            let was_coarse = sched::is_coarse(tid);
            sched::set_coarse(tid, true);
            let out = match PriceLevel::from_snapshot(s) {
                Ok(l) => {
                    let g = UuidGenerator::new(NS);
                    let _ = l.match_order(DRAIN_QTY, oid(950 + tid as u64), &g);
                    OpResult::Read(l.visible_quantity(), l.hidden_quantity(), l.order_count())
                }
                Err(e) => OpResult::Panicked(format!("a snapshot taken from the live level was refused: {e}")),
            };
            sched::set_coarse(tid, was_coarse);
            out
        }
    }
}

/// upper bound on what can ever have been supplied to the level by this program (C12)
fn supply_bound(prog: &Program) -> (u128, usize) {
    let mut total: u128 = book_orders(prog.book).iter().map(o_tot).sum();
    let mut count = book_orders(prog.book).len();
    for (tid, t) in prog.threads.iter().enumerate() {
        for op in t {
            match op {
                COp::Add | COp::AddIce => {
                    total += o_tot(&added_order(*op, tid));
                    count += 1;
                }
                COp::Amend(_, n) | COp::AmendVia(_, _, n) => total += *n as u128,
                _ => {}
            }
        }
    }
    (total, count)
}

pub fn execute(prog: &Program, prefix: &[u8], cfg: &ExecCfg) -> Exec {
    // the clock seam: from the construction of the level to the last observation
    struct ClockGuard(Option<crate::clock::VClock>);
    impl Drop for ClockGuard {
        fn drop(&mut self) {
            crate::clock::restore(self.0);
        }
    }
    let _clock = cfg.clock_step_ms.map(|ms| ClockGuard(crate::clock::set(Some(ms as i128 * 1_000_000))));
    sched::begin_execution();
    // shared objects
    let level = PriceLevel::new(LEVEL_PRICE);
    let level_objs = sched::created();
    let generator = UuidGenerator::new(NS);
    let all_objs = sched::created();
    let mut objs = Objs::default();
    // identify the aggregates by probing the public getters
    let probe = |f: &dyn Fn()| -> u64 {
        sched::take_log();
        f();
        sched::take_log().last().map(|e| e.ev.obj).unwrap_or(u64::MAX)
    };
    objs.vis = probe(&|| {
        level.visible_quantity();
    });
    objs.hid = probe(&|| {
        level.hidden_quantity();
    });
    objs.count = probe(&|| {
        level.order_count();
    });
    for (c, id) in &level_objs {
        match c {
            Class::Map => objs.map = *id,
            Class::Queue => objs.queue = *id,
            _ => {
                if *id != objs.vis && *id != objs.hid && *id != objs.count {
                    objs.stats.push(*id);
                }
            }
        }
    }
    objs.counter = all_objs
        .iter()
        .skip(level_objs.len())
        .map(|x| x.1)
        .next()
        .unwrap_or(u64::MAX);
    let mut noyield = vec![];
    if !cfg.yield_stats {
        noyield.extend(objs.stats.iter().copied());
    }
    if !cfg.yield_counter {
        noyield.push(objs.counter);
    }
    sched::set_noyield(noyield);
    sched::take_log();
    // book (step 0, harness op 0)
    for o in book_orders(prog.book) {
        level.add_order(o);
    }
    for u in book_prelude(prog.book) {
        let _ = level.update_order(u);
    }
    let shared = Rc::new(Shared {
        book: book_orders(prog.book),
        level,
        generator,
        results: RefCell::new(vec![vec![]; prog.threads.len()]),
    });
    let mut bodies: Vec<Box<dyn FnOnce()>> = vec![];
    for (tid, ops) in prog.threads.iter().enumerate() {
        let sh = shared.clone();
        let ops = ops.clone();
        let coarse = prog.coarse.get(tid).copied().unwrap_or(false);
        bodies.push(Box::new(move || {
            if coarse {
                sched::set_coarse(tid, true);
            }
            for (i, op) in ops.iter().enumerate() {
                if coarse {
                    sched::yield_point();
                }
                sched::set_cur_op(tid, i as u8);
                let r = std::panic::catch_unwind(std::panic::AssertUnwindSafe(|| {
                    run_op(&sh, tid, *op)
                }));
                let r = match r {
                    Ok(r) => r,
                    Err(p) => {
                        if ABORTING.with(|a| a.get()) {
                            std::panic::resume_unwind(p);
                        }
                        let msg = if let Some(s) = p.downcast_ref::<String>() {
                            s.clone()
                        } else if let Some(s) = p.downcast_ref::<&str>() {
                            s.to_string()
                        } else {
                            // not ours (e.g. the coroutine's forced unwind): keep unwinding
                            std::panic::resume_unwind(p);
                        };
                        OpResult::Panicked(msg)
                    }
                };
                sh.results.borrow_mut()[tid].push(r);
            }
        }));
    }
    let (bound_total, bound_count) = supply_bound(prog);
    let mut monitor: Vec<String> = vec![];
    let sh2 = shared.clone();
    let mut after_step = |step: u32, tid: u8| {
        sched::as_harness(false, || {
            let v = sh2.level.visible_quantity();
            let h = sh2.level.hidden_quantity();
            let c = sh2.level.order_count();
            if v as u128 > bound_total || h as u128 > bound_total || c > bound_count {
                if monitor.len() < 3 {
                    monitor.push(format!(
                        "after step {step} (thread {tid}): visible={v} hidden={h} count={c} exceed everything ever supplied (total {bound_total}, {bound_count} orders)"
                    ));
                }
            }
        })
    };
    ABORTING.with(|a| a.set(false));
    let out = {
        let r = std::panic::catch_unwind(std::panic::AssertUnwindSafe(|| {
            sched::run_threads(bodies, prefix, cfg.max_steps, &mut after_step)
        }));
        match r {
            Ok(o) => o,
            Err(_) => RunOut {
                aborted: true,
                ..Default::default()
            },
        }
    };
    ABORTING.with(|a| a.set(false));
    // quiescence
    let (quiescent, stats) = sched::as_harness(false, || {
        let st = shared.level.stats();
        (
            observe(&shared.level),
            (
                st.orders_added(),
                st.orders_removed(),
                st.quantity_executed(),
                st.value_executed(),
            ),
        )
    });
    sched::SCHED.with(|s| {
        s.harness_op.set(1);
        s.step.set(out.steps + 1);
    });
    let drain = sched::as_harness_budgeted(true, 3_000, || {
        let r = shared
            .level
            .match_order(DRAIN_QTY, oid(999), &shared.generator);
        let ids = r
            .transactions
            .as_vec()
            .iter()
            .map(|t| t.transaction_id)
            .collect();
        OpResult::Matched(match_obs(&r), ids)
    })
    .unwrap_or(OpResult::Panicked(
        "the draining match did not return within 3000 shared-memory operations (or panicked)".into(),
    ));
    let post_drain = sched::as_harness(false, || observe(&shared.level));
    let log = sched::take_log();
    let results = shared.results.borrow().clone();
    let other_ops = sched::SCHED.with(|s| s.other_ops.get());
    Exec {
        out,
        log,
        results,
        quiescent,
        stats,
        drain,
        post_drain,
        monitor,
        objs,
        other_ops,
    }
}

// ---------------------------------------------------------------------------------------------
// oracles

#[derive(Clone, Debug)]
pub struct Finding {
    pub prop: &'static str,
    /// known-finding signature, or a short class name for violations
    pub sig: String,
    pub known_candidate: bool,
    pub msg: String,
}

#[derive(Clone, Debug)]
struct Link {
    id: u128,
    holder: (i8, u8),
    out: (u64, u64),
    out_idx: usize,
    inn: Option<(u64, u64, usize)>,
}

fn key_id(k: &Option<[u8; 16]>) -> u128 {
    let b = k.unwrap_or_default();
    let mut hi = [0u8; 8];
    hi.copy_from_slice(&b[..8]);
    let mut lo = [0u8; 8];
    lo.copy_from_slice(&b[8..]);
    if u64::from_be_bytes(lo) == 0 {
        u64::from_be_bytes(hi) as u128
    } else {
        u128::from_be_bytes(b)
    }
}

fn op_of(prog: &Program, holder: (i8, u8)) -> Option<COp> {
    if holder.0 < 0 {
        return if holder.1 == 1 {
            Some(COp::Match(DRAIN_QTY))
        } else {
            None
        };
    }
    prog.threads
        .get(holder.0 as usize)
        .and_then(|t| t.get(holder.1 as usize))
        .map(|o| o.canon())
}

pub fn evaluate(prog: &Program, ex: &Exec, want_c14: bool) -> Vec<Finding> {
    let f: RefCell<Vec<Finding>> = RefCell::new(vec![]);
    let add = |prop: &'static str, sig: &str, known: bool, msg: String| {
        f.borrow_mut().push(Finding {
            prop,
            sig: sig.to_string(),
            known_candidate: known,
            msg,
        })
    };
    if ex.out.aborted {
        add(
            "C03",
            "no_return",
            false,
            format!(
                "the threads did not all return within {} scheduled steps (livelock / panic in the scheduler)",
                ex.out.steps
            ),
        );
        return f.into_inner();
    }
    // templates of every id
    let mut templ: HashMap<u128, Ord_> = HashMap::new();
    for o in book_orders(prog.book) {
        templ.insert(rec(&o).id, o);
    }
    for (tid, t) in prog.threads.iter().enumerate() {
        for op in t {
            if matches!(op, COp::Add | COp::AddIce) {
                let o = added_order(*op, tid);
                templ.insert(rec(&o).id, o);
            }
        }
    }
    for (tid, rs) in ex.results.iter().enumerate() {
        for (i, r) in rs.iter().enumerate() {
            if let OpResult::Panicked(m) = r {
                add(
                    "C03",
                    "panic",
                    false,
                    format!("thread {tid} op {i} ({:?}) panicked: {m}", prog.threads[tid][i]),
                );
            }
        }
        if rs.len() != prog.threads[tid].len() {
            add("C03", "no_return", false, format!("thread {tid} did not finish its program"));
        }
    }
    if !f.borrow().is_empty() {
        return f.into_inner();
    }

    // ---- ledger
    #[derive(Clone, Copy, PartialEq, Debug)]
    enum St {
        Absent,
        InMap(u64, u64),
        Held((i8, u8), usize),
    }
    let mut state: HashMap<u128, St> = HashMap::new();
    let mut links: Vec<Link> = vec![];
    let mut first_insert: HashMap<u128, usize> = HashMap::new();
    let mut supplied: HashMap<u128, i128> = HashMap::new();
    let mut ledger_ok = true;
    let mut lookups: Vec<(usize, (i8, u8), u128, bool)> = vec![]; // (log idx, holder, id, found)
    for (idx, e) in ex.log.iter().enumerate() {
        if e.ev.obj != ex.objs.map || e.ev.phase != Phase::After {
            continue;
        }
        let id = key_id(&e.ev.key);
        let who = (e.tid, e.opi);
        // the book and its prelude (harness, op 0): what the prelude takes out is not supplied to the threads
        let setup = who == (-1, 0);
        match e.ev.kind {
            Kind::Insert => {
                let st = *state.get(&id).unwrap_or(&St::Absent);
                if setup {
                    if let St::Held(h, _) = st {
                        if h == who {
                            *supplied.entry(id).or_default() += e.ev.vis as i128 + e.ev.hid as i128;
                        }
                    }
                }
                if e.ev.found && st == St::InMap(e.ev.vis, e.ev.hid) {
                    // the same version written over itself: nothing was supplied, lost or duplicated
                    continue;
                }
                if e.ev.found {
                    // the ledger stays usable: the replaced version is simply gone
                    add("C03", "overwrite", false, format!(
                        "a map insert of #{id} replaced a resting version (an order version was lost / duplicated)"));
                }
                match st {
                    St::Held(h, li) if h == who => {
                        links[li].inn = Some((e.ev.vis, e.ev.hid, idx));
                    }
                    St::Held(_, _) => {
                        // inserted by someone else while held: a fresh version under the same id
                        *supplied.entry(id).or_default() += e.ev.vis as i128 + e.ev.hid as i128;
                    }
                    _ => {
                        first_insert.entry(id).or_insert(idx);
                        *supplied.entry(id).or_default() += e.ev.vis as i128 + e.ev.hid as i128;
                    }
                }
                state.insert(id, St::InMap(e.ev.vis, e.ev.hid));
            }
            Kind::Remove => {
                lookups.push((idx, who, id, e.ev.found));
                if e.ev.found {
                    let st = *state.get(&id).unwrap_or(&St::Absent);
                    if st != St::InMap(e.ev.vis, e.ev.hid) {
                        ledger_ok = false;
                    }
                    if setup {
                        *supplied.entry(id).or_default() -= e.ev.vis as i128 + e.ev.hid as i128;
                    }
                    links.push(Link {
                        id,
                        holder: who,
                        out: (e.ev.vis, e.ev.hid),
                        out_idx: idx,
                        inn: None,
                    });
                    state.insert(id, St::Held(who, links.len() - 1));
                }
            }
            Kind::Get => lookups.push((idx, who, id, e.ev.found)),
            Kind::Other => ledger_ok = false,
            _ => {}
        }
    }
    if ex.other_ops > 0 {
        ledger_ok = false;
    }

    let order_of = |id: u128, q: (u64, u64)| -> Option<Ord_> {
        templ.get(&id).map(|t| with_vis_hid(t, q.0, q.1))
    };

    // ---- per-operation checks through the links
    // links of a match that took an order out of the queue although nothing was left to match
    let mut needless: HashSet<usize> = HashSet::new();
    let mut discarded: HashMap<u128, u128> = HashMap::new();
    let mut amend_adj: HashMap<u128, i128> = HashMap::new();
    let mut all_ops: Vec<((i8, u8), COp, Option<&OpResult>)> = vec![];
    for (tid, t) in prog.threads.iter().enumerate() {
        for (i, op) in t.iter().enumerate() {
            all_ops.push(((tid as i8, i as u8), op.canon(), ex.results[tid].get(i)));
        }
    }
    all_ops.push(((-1, 1), COp::Match(DRAIN_QTY), Some(&ex.drain)));
    if ledger_ok {
        for (who, op, res) in &all_ops {
            let mine: Vec<&Link> = links.iter().filter(|l| l.holder == *who).collect();
            let is_drain = who.0 < 0;
            let p: &'static str = if is_drain { "C08" } else { "C03" };
            match (op, res) {
                (COp::Match(q), Some(OpResult::Matched(m, _))) => {
                    let mut remaining = *q;
                    let mut exp_fills = vec![];
                    let mut exp_left = vec![];
                    for l in &mine {
                        let Some(o) = order_of(l.id, l.out) else { continue };
                        if remaining == 0 {
                            needless.insert(l.out_idx);
                            add(p, "link", false, format!(
                                "{op:?} of thread {} took #{} out of the queue with nothing left to match", who.0, l.id));
                        }
                        let sm = spec_match_against(&o, remaining);
                        let exp_in = sm.updated.as_ref().map(|u| (o_vis(u), o_hid(u)));
                        let got_in = l.inn.map(|x| (x.0, x.1));
                        if exp_in != got_in {
                            add(p, "link", false, format!(
                                "{op:?} of thread {}: took {} with {} remaining, put back {:?}, the matching rules give {:?} (quantity not conserved)",
                                who.0, short(&o), remaining, got_in, exp_in));
                        }
                        if sm.consumed > 0 {
                            exp_fills.push((l.id, sm.consumed));
                            if sm.updated.is_none() {
                                exp_left.push(l.id);
                            }
                        }
                        *discarded.entry(l.id).or_default() += sm.discarded as u128;
                        remaining = sm.remaining;
                    }
                    let mut got_left = m.filled.clone();
                    got_left.sort();
                    exp_left.sort();
                    if m.fills != exp_fills || m.remaining != remaining || m.complete != (remaining == 0) || got_left != exp_left {
                        add(p, "match_result", false, format!(
                            "{op:?} of thread {}: result {} but the orders it took give fills={:?} remaining={} filled={:?}",
                            who.0, m.describe(), exp_fills, remaining, exp_left));
                    }
                }
                (COp::Cancel(id), Some(OpResult::Updated(u))) | (COp::Move(id), Some(OpResult::Updated(u))) => {
                    let idn_ = *id as u128;
                    match u {
                        UpdObs::Order(o) => {
                            let ok = mine.len() == 1
                                && mine[0].id == idn_
                                && mine[0].out == (o_vis(o), o_hid(o))
                                && mine[0].inn.is_none();
                            if !ok {
                                add("C03", "cancel_link", false, format!(
                                    "{op:?} of thread {} returned {} but took {:?} out of the map",
                                    who.0, short(o), mine.iter().map(|l| (l.id, l.out, l.inn.is_some())).collect::<Vec<_>>()));
                            }
                        }
                        UpdObs::NotFound => {
                            if !mine.is_empty() {
                                add("C03", "cancel_link", false, format!(
                                    "{op:?} of thread {} answered not-found but removed #{} from the map (order lost)", who.0, mine[0].id));
                            }
                        }
                        UpdObs::Rejected => add("C03", "cancel_link", false, format!("{op:?} was rejected")),
                    }
                }
                (COp::Amend(id, n), Some(OpResult::Updated(u))) => {
                    let idn_ = *id as u128;
                    match u {
                        UpdObs::Order(o) => {
                            let exp = mine.first().and_then(|l| order_of(l.id, l.out)).map(|old| spec_amend(&old, *n));
                            let ok = mine.len() == 1
                                && mine[0].id == idn_
                                && exp.map(|e| (o_vis(&e), o_hid(&e))) == mine[0].inn.map(|x| (x.0, x.1))
                                && mine[0].inn.map(|x| (x.0, x.1)) == Some((o_vis(o), o_hid(o)));
                            if !ok {
                                add("C03", "amend_link", false, format!(
                                    "{op:?} of thread {} returned {} but its map operations were {:?}",
                                    who.0, short(o), mine.iter().map(|l| (l.id, l.out, l.inn.map(|x| (x.0, x.1)))).collect::<Vec<_>>()));
                            } else if let Some(l) = mine.first() {
                                *amend_adj.entry(l.id).or_default() += l.inn.unwrap().0 as i128 - l.out.0 as i128;
                            }
                        }
                        UpdObs::NotFound => {
                            if !mine.is_empty() {
                                add("C03", "amend_link", false, format!(
                                    "{op:?} of thread {} answered not-found but removed #{} from the map (order lost)", who.0, mine[0].id));
                            }
                        }
                        UpdObs::Rejected => add("C03", "amend_link", false, format!("{op:?} was rejected")),
                    }
                }
                _ => {}
            }
        }
    }

    // ---- C03: quiescent aggregates and the per-order equation of the statement
    if let Err(m) = ex.quiescent.aggregates_consistent() {
        add("C03", "aggregates", false, format!("once all threads have returned: {m}"));
    }
    let mut executed: HashMap<u128, u128> = HashMap::new();
    let mut cancelled: HashMap<u128, u128> = HashMap::new();
    for (tid, rs) in ex.results.iter().enumerate() {
        for (i, r) in rs.iter().enumerate() {
            match (prog.threads[tid][i].canon(), r) {
                (_, OpResult::Matched(m, _)) => {
                    for (mk, q) in &m.fills {
                        *executed.entry(*mk).or_default() += *q as u128;
                    }
                }
                (COp::Cancel(_), OpResult::Updated(UpdObs::Order(o)))
                | (COp::Move(_), OpResult::Updated(UpdObs::Order(o))) => {
                    *cancelled.entry(rec(o).id).or_default() += o_tot(o);
                }
                _ => {}
            }
        }
    }
    if ledger_ok {
        // discards by thread matches only (the drain's are accounted separately)
        let mut disc_threads: HashMap<u128, u128> = HashMap::new();
        for l in links.iter().filter(|l| l.holder.0 >= 0 && l.inn.is_none()) {
            if let (Some(COp::Match(_)), Some(o)) = (op_of(prog, l.holder), order_of(l.id, l.out)) {
                let r = rec(&o);
                if r.kind == 6 && r.p4 == 0 {
                    *disc_threads.entry(l.id).or_default() += r.hid as u128;
                }
            }
        }
        for (id, t) in &templ {
            let sup = *supplied.get(id).unwrap_or(&0) + *amend_adj.get(id).unwrap_or(&0);
            let resting = ex.quiescent.orders.iter().find(|o| rec(o).id == *id).map(o_tot).unwrap_or(0);
            let rhs = *executed.get(id).unwrap_or(&0)
                + *cancelled.get(id).unwrap_or(&0)
                + resting
                + *disc_threads.get(id).unwrap_or(&0);
            if sup < 0 || sup as u128 != rhs {
                add("C03", "conservation", false, format!(
                    "order #{id} ({}): supplied (adjusted by amendments) {sup} != executed {} + handed back by cancel {} + resting {} + discarded {}",
                    short(t), executed.get(id).unwrap_or(&0), cancelled.get(id).unwrap_or(&0), resting, disc_threads.get(id).unwrap_or(&0)));
            }
        }
        // the listing at quiescence is exactly what the ledger says is in the map
        let mut in_map: Vec<(u128, u64, u64)> = vec![];
        // replay the ledger up to the drain
        let drain_start = ex.log.iter().position(|e| e.tid < 0 && e.opi == 1).unwrap_or(ex.log.len());
        let mut st2: HashMap<u128, Option<(u64, u64)>> = HashMap::new();
        for e in ex.log[..drain_start].iter() {
            if e.ev.obj != ex.objs.map || e.ev.phase != Phase::After {
                continue;
            }
            let id = key_id(&e.ev.key);
            match e.ev.kind {
                Kind::Insert => {
                    st2.insert(id, Some((e.ev.vis, e.ev.hid)));
                }
                Kind::Remove if e.ev.found => {
                    st2.insert(id, None);
                }
                _ => {}
            }
        }
        for (id, v) in st2 {
            if let Some((a, b)) = v {
                in_map.push((id, a, b));
            }
        }
        in_map.sort();
        let listed: Vec<(u128, u64, u64)> = ex.quiescent.orders.iter().map(|o| (rec(o).id, o_vis(o), o_hid(o))).collect();
        if in_map != listed {
            add("C03", "listing", false, format!(
                "resting orders listed at quiescence {listed:?} != map content per ledger {in_map:?}"));
        }
    }

    // ---- C08: the draining match
    match &ex.drain {
        OpResult::Matched(d, _) => {
            let promised: u128 = ex.quiescent.orders.iter().map(spec_executable).sum();
            if d.executed() != promised {
                add("C08", "drain_total", false, format!(
                    "a draining match executed {} but the orders resting at quiescence promise {} (displayed + replenishable): {} ; drain {}",
                    d.executed(), promised, ex.quiescent.describe(), d.describe()));
            }
            for o in &ex.quiescent.orders {
                let id = rec(o).id;
                let got: u128 = d.fills.iter().filter(|x| x.0 == id).map(|x| x.1 as u128).sum();
                if got != spec_executable(o) {
                    add("C08", "drain_order", false, format!(
                        "resting order {} is not reachable by matching: a draining match executed {got} of it instead of {}",
                        short(o), spec_executable(o)));
                }
            }
            if let Some(o) = ex.post_drain.orders.iter().find(|o| o_vis(o) > 0) {
                add("C08", "stranded", false, format!(
                    "after a draining match {} still displays quantity (stranded order)", short(o)));
            }
            if let Err(m) = ex.post_drain.aggregates_consistent() {
                add("C08", "aggregates_after_drain", false, format!("after the draining match: {m}"));
            }
            if ex.post_drain.vis != 0 {
                add("C08", "aggregates_after_drain", false, format!(
                    "after the draining match the level still reports visible quantity {}", ex.post_drain.vis));
            }
        }
        OpResult::Panicked(m) => add("C08", "drain_failed", false, m.clone()),
        _ => add("C08", "drain_failed", false, "the draining match failed".into()),
    }

    // ---- C12
    {
        let (bt, bc) = supply_bound(prog);
        let d = &ex.post_drain;
        if d.vis as u128 > bt || d.hid as u128 > bt || d.count > bc {
            add("C12", "after_drain", false, format!(
                "after the threads returned and a draining match ran, a reader sees visible={} hidden={} count={} - more than was ever supplied ({bt}, {bc} orders)",
                d.vis, d.hid, d.count));
        }
    }
    for m in &ex.monitor {
        add("C12", "monitor", false, m.clone());
    }
    let (bt, bc) = supply_bound(prog);
    for (tid, rs) in ex.results.iter().enumerate() {
        for r in rs {
            if let OpResult::Read(v, h, c) = r {
                if *v as u128 > bt || *h as u128 > bt || *c > bc {
                    add("C12", "reader", false, format!(
                        "a reader in thread {tid} saw visible={v} hidden={h} count={c}, more than was ever supplied ({bt}, {bc} orders){}",
                        if prog.threads[tid].contains(&COp::Restore) { " - on the level it rebuilt from its snapshot, after emptying it with a match" } else { "" }));
                }
            }
        }
    }

    // ---- C16 / C17: a form printed while writers run must still be something the library's own parser accepts
    for (tid, rs) in ex.results.iter().enumerate() {
        for (i, r) in rs.iter().enumerate() {
            if let OpResult::Shown(Some(m)) = r {
                let json = prog.threads[tid].get(i) == Some(&COp::ShowJson);
                add(if json { "C17" } else { "C16" }, "unparsable_when_printed_concurrently", false, format!(
                    "thread {tid} printed the level as {} while other threads were writing and the library's parser refuses the result: {m}",
                    if json { "JSON" } else { "text" }));
            }
        }
    }

    // ---- C13
    if ledger_ok {
        for (who, op, res) in &all_ops {
            let (target, is_cancel) = match op {
                COp::Cancel(id) | COp::Move(id) => (*id as u128, true),
                COp::Amend(id, _) => (*id as u128, false),
                _ => continue,
            };
            let Some(OpResult::Updated(u)) = res else { continue };
            let first_ev = ex.log.iter().position(|e| (e.tid, e.opi) == *who && e.tid >= 0);
            match u {
                UpdObs::NotFound => {
                    // the failing lookup of this call
                    let Some(&(fidx, _, _, _)) = lookups.iter().rev().find(|l| l.1 == *who && l.2 == target && !l.3) else { continue };
                    let Some(fi) = first_insert.get(&target) else { continue };
                    if first_ev.map(|x| *fi > x).unwrap_or(true) {
                        continue; // not resting before the call began
                    }
                    // who holds the order at the failing step?
                    let holder_link = links.iter().rev().find(|l| l.id == target && l.out_idx < fidx);
                    match holder_link {
                        None => add("C13", "notfound_in_map", false, format!(
                            "{op:?} of thread {} answered not-found although #{target} was in the map", who.0)),
                        Some(l) => {
                            let reinserted = l.inn.map(|x| x.2 > fidx).unwrap_or(false);
                            let reinserted_before = l.inn.map(|x| x.2 < fidx).unwrap_or(false);
                            if reinserted_before {
                                add("C13", "notfound_in_map", false, format!(
                                    "{op:?} of thread {} answered not-found although #{target} was in the map", who.0));
                            } else if reinserted {
                                let hop = op_of(prog, l.holder);
                                let (sig, known) = match hop {
                                    // the known window is "between taking an order it is matching against and putting the
                                    // remainder back"; a match holding an order it had no quantity left for is something else
                                    Some(COp::Match(_)) if needless.contains(&l.out_idx) => ("notfound_while_matcher_holds_needlessly", false),
                                    Some(COp::Match(_)) => ("notfound_while_matcher_holds", true),
                                    Some(COp::Amend(..)) => ("notfound_while_amend_holds", true),
                                    _ => ("notfound_while_held", false),
                                };
                                add("C13", sig, known, format!(
                                    "{op:?} of thread {} answered not-found while {:?} of thread {} held #{target} between taking it out and putting it back; the order survives",
                                    who.0, hop, l.holder.0));
                            }
                        }
                    }
                }
                UpdObs::Order(_) if is_cancel => {
                    if !links.iter().any(|l| l.holder == *who && l.id == target) {
                        add("C13", "cancel_without_removal", false, format!(
                            "{op:?} of thread {} reported success but never took #{target} out of the book itself (whoever took it trades it / hands it out as well)", who.0));
                    }
                    if let Some(l) = links.iter().find(|l| l.holder == *who && l.id == target) {
                        let later_insert = ex.log.iter().enumerate().any(|(i, e)| {
                            i > l.out_idx
                                && e.ev.obj == ex.objs.map
                                && e.ev.phase == Phase::After
                                && e.ev.kind == Kind::Insert
                                && key_id(&e.ev.key) == target
                        });
                        if later_insert {
                            add("C13", "cancelled_reappears", false, format!(
                                "{op:?} of thread {} reported success but #{target} was put back into the book afterwards", who.0));
                        }
                    }
                    // the order must not trade after the cancel returned it: any fill of it must come
                    // from a link taken before the cancel
                    let traded_after = links.iter().any(|l| {
                        l.id == target
                            && matches!(op_of(prog, l.holder), Some(COp::Match(_)))
                            && links.iter().any(|c| c.holder == *who && c.id == target && l.out_idx > c.out_idx)
                    });
                    if traded_after {
                        add("C13", "cancelled_trades", false, format!(
                            "{op:?} of thread {} reported success but #{target} traded afterwards", who.0));
                    }
                }
                _ => {}
            }
        }
    }

    // ---- C15
    {
        let adds = book_orders(prog.book).len()
            + prog.threads.iter().flatten().filter(|o| matches!(o, COp::Add | COp::AddIce)).count();
        let prelude_removed = book_prelude(prog.book)
            .iter()
            .filter(|u| matches!(u, OrderUpdate::Cancel { .. } | OrderUpdate::UpdatePrice { .. }))
            .count();
        let removed = prelude_removed + ex.results.iter().enumerate().map(|(tid, rs)| {
            rs.iter().enumerate().filter(|(i, r)| {
                matches!(prog.threads[tid][*i].canon(), COp::Cancel(_) | COp::Move(_))
                    && matches!(r, OpResult::Updated(UpdObs::Order(_)))
            }).count()
        }).sum::<usize>();
        let qty: u128 = executed.values().sum();
        let (a, r, q, v) = ex.stats;
        if a != adds || r != removed || q as u128 != qty || v as u128 != qty * LEVEL_PRICE as u128 {
            add("C15", "stats", false, format!(
                "statistics at quiescence (added={a}, removed={r}, qty={q}, value={v}) != events (added={adds}, removed={removed}, qty={qty}, value={})",
                qty * LEVEL_PRICE as u128));
        }
    }

    // ---- C14 (transaction ids of all matches sharing the generator)
    if want_c14 {
        let mut ids: Vec<Uuid> = vec![];
        for rs in &ex.results {
            for r in rs {
                if let OpResult::Matched(_, t) = r {
                    ids.extend(t.iter().copied());
                }
            }
        }
        if let OpResult::Matched(_, t) = &ex.drain {
            ids.extend(t.iter().copied());
        }
        let n = ids.len();
        let set: HashSet<Uuid> = ids.iter().copied().collect();
        let expect: HashSet<Uuid> = (0..n).map(|i| Uuid::new_v5(&NS, i.to_string().as_bytes())).collect();
        if set.len() != n {
            add("C14", "duplicate_id", false, format!("{} transactions carry only {} distinct ids", n, set.len()));
        } else if set != expect {
            add("C14", "unexpected_ids", false, "transaction ids are not the generator's first n ids".into());
        }
    }
    f.into_inner()
}

/// event logs equal, ignoring the values of the statistics atomics (wall-clock time fields)
pub fn same_log(a: &Exec, b: &Exec) -> bool {
    a.log.len() == b.log.len()
        && a.log.iter().zip(b.log.iter()).all(|(x, y)| {
            // statistics carry wall-clock times; so do the statistics of levels created by the program itself
            // (a reader that rebuilds a level): only the main level's own objects are compared by value
            let core = [a.objs.vis, a.objs.hid, a.objs.count, a.objs.map, a.objs.queue, a.objs.counter];
            if !core.contains(&x.ev.obj) {
                (x.step, x.tid, x.opi, x.ev.obj, x.ev.kind) == (y.step, y.tid, y.opi, y.ev.obj, y.ev.kind)
            } else {
                x == y
            }
        })
}

impl Exec {
    /// fingerprint of everything observable at the end (distinct outcome count)
    pub fn outcome_hash(&self) -> u64 {
        let recs: Vec<Rec> = self.quiescent.orders.iter().map(rec).collect();
        let res: Vec<String> = self
            .results
            .iter()
            .map(|r| {
                r.iter()
                    .map(|x| match x {
                        OpResult::Matched(m, _) => m.describe(),
                        o => format!("{o:?}"),
                    })
                    .collect::<Vec<_>>()
                    .join(";")
            })
            .collect();
        hash64(&(recs, self.quiescent.vis, self.quiescent.hid, self.quiescent.count, res))
    }
    pub fn end_state_hash(&self) -> u64 {
        let recs: Vec<Rec> = self.quiescent.orders.iter().map(rec).collect();
        hash64(&(recs, self.quiescent.vis, self.quiescent.hid, self.quiescent.count, self.stats))
    }
}

// ---------------------------------------------------------------------------------------------
// exploration driver

#[derive(Clone, Debug)]
pub struct Found {
    pub finding: Finding,
    pub program: u32,
    pub prefix: Vec<u8>,
    pub preemptions: u32,
    pub count: u64,
}

#[derive(Default)]
pub struct ExploreOut {
    pub executions: u64,
    pub steps: u64,
    pub programs: u64,
    pub with_preemption: u64,
    pub max_preemptions: u32,
    pub end_states: u64,
    pub outcomes: u64,
    pub found: BTreeMap<(String, String), Found>,
    pub diverged: u64,
    pub nondeterministic_programs: u64,
    pub capped: Option<String>,
    pub other_ops: u64,
    pub outcome_set: HashSet<u64>,
}

pub struct ExploreCfg {
    pub bound: Option<u32>,
    pub exec: ExecCfg,
    pub wall_cap: Duration,
    pub threads: usize,
    pub want_c14: bool,
}

pub fn explore(programs: &[Program], cfg: &ExploreCfg) -> ExploreOut {
    let start = Instant::now();
    let pool: Mutex<Vec<Work>> = Mutex::new(
        (0..programs.len() as u32)
            .rev()
            .map(|p| Work { program: p, prefix: vec![], cost: 0 })
            .collect(),
    );
    let active = AtomicUsize::new(0);
    let stop = AtomicBool::new(false);
    let pool_len = AtomicUsize::new(programs.len());
    let executions = AtomicU64::new(0);
    struct Acc {
        steps: u64,
        with_preemption: u64,
        max_preemptions: u32,
        end_states: HashSet<u64>,
        outcomes: HashSet<u64>,
        found: BTreeMap<(String, String), Found>,
        diverged: u64,
        nondet: u64,
        other_ops: u64,
        execs: u64,
    }
    let accs: Vec<Acc> = std::thread::scope(|sc| {
        let mut hs = vec![];
        for _ in 0..cfg.threads.max(1) {
            hs.push(sc.spawn(|| {
                sched::install_hook();
                let mut acc = Acc {
                    steps: 0,
                    with_preemption: 0,
                    max_preemptions: 0,
                    end_states: HashSet::new(),
                    outcomes: HashSet::new(),
                    found: BTreeMap::new(),
                    diverged: 0,
                    nondet: 0,
                    other_ops: 0,
                    execs: 0,
                };
                let mut local: Vec<Work> = vec![];
                let mut is_active = false;
                loop {
                    if stop.load(Ordering::Relaxed) {
                        break;
                    }
                    let w = match local.pop() {
                        Some(w) => w,
                        None => {
                            let got = {
                                let mut p = pool.lock().unwrap();
                                let n = p.len();
                                let take = (n / 16).clamp(1, 64).min(n);
                                let at = n - take;
                                let mut v = p.split_off(at);
                                pool_len.store(p.len(), Ordering::Relaxed);
                                if !v.is_empty() && !is_active {
                                    is_active = true;
                                    active.fetch_add(1, Ordering::SeqCst);
                                }
                                v.reverse();
                                v
                            };
                            if got.is_empty() {
                                if is_active {
                                    is_active = false;
                                    active.fetch_sub(1, Ordering::SeqCst);
                                }
                                if active.load(Ordering::SeqCst) == 0 && pool_len.load(Ordering::Relaxed) == 0 {
                                    // re-check under the lock
                                    if pool.lock().unwrap().is_empty() && active.load(Ordering::SeqCst) == 0 {
                                        break;
                                    }
                                }
                                std::thread::sleep(Duration::from_micros(200));
                                continue;
                            }
                            local = got;
                            local.pop().unwrap()
                        }
                    };
                    let prog = &programs[w.program as usize];
                    let ex = match std::panic::catch_unwind(std::panic::AssertUnwindSafe(|| {
                        execute(prog, &w.prefix, &cfg.exec)
                    })) {
                        Ok(e) => e,
                        Err(_) => {
                            // a panic outside the guarded calls: counted as a diverged execution (machinery error)
                            acc.diverged += 1;
                            sched::install_hook();
                            continue;
                        }
                    };
                    acc.execs += 1;
                    if w.prefix.is_empty() {
                        // determinism check: the default schedule twice, identical observations
                        let ex2 = execute(prog, &w.prefix, &cfg.exec);
                        if !same_log(&ex2, &ex) || ex2.results != ex.results || ex2.quiescent != ex.quiescent {
                            acc.nondet += 1;
                        }
                    }
                    let n = executions.fetch_add(1, Ordering::Relaxed);
                    if n % 4096 == 0 && start.elapsed() > cfg.wall_cap {
                        stop.store(true, Ordering::Relaxed);
                    }
                    acc.steps += ex.out.steps as u64;
                    acc.other_ops += ex.other_ops;
                    if ex.out.diverged {
                        acc.diverged += 1;
                        continue;
                    }
                    if ex.out.preemptions > 0 {
                        acc.with_preemption += 1;
                    }
                    acc.max_preemptions = acc.max_preemptions.max(ex.out.preemptions);
                    acc.end_states.insert(ex.end_state_hash());
                    acc.outcomes.insert(ex.outcome_hash());
                    let findings = std::panic::catch_unwind(std::panic::AssertUnwindSafe(|| {
                        evaluate(prog, &ex, cfg.want_c14)
                    }))
                    .unwrap_or_else(|_| {
                        vec![Finding {
                            prop: "C03",
                            sig: "oracle_panic".into(),
                            known_candidate: false,
                            msg: "the oracle panicked while evaluating this execution (inconsistent observations)".into(),
                        }]
                    });
                    for fd in findings {
                        let key = (fd.prop.to_string(), fd.sig.clone());
                        let pre: Vec<u8> = ex.out.points.iter().map(|p| p.chosen).collect();
                        let e = acc.found.entry(key).or_insert(Found {
                            finding: fd.clone(),
                            program: w.program,
                            prefix: pre.clone(),
                            preemptions: ex.out.preemptions,
                            count: 0,
                        });
                        e.count += 1;
                        if (ex.out.preemptions, pre.len(), w.program) < (e.preemptions, e.prefix.len(), e.program) {
                            e.finding = fd;
                            e.program = w.program;
                            e.prefix = pre;
                            e.preemptions = ex.out.preemptions;
                        }
                    }
                    let before = local.len();
                    sched::children(w.program, w.prefix.len(), &ex.out, cfg.bound, &mut local);
                    // donate when the shared pool runs low
                    if local.len() > 64 && pool_len.load(Ordering::Relaxed) < 4 * cfg.threads {
                        let give = local.len() / 2;
                        let rest = local.split_off(give);
                        let mut p = pool.lock().unwrap();
                        p.extend(local.drain(..));
                        pool_len.store(p.len(), Ordering::Relaxed);
                        local = rest;
                    }
                    let _ = before;
                }
                if is_active {
                    active.fetch_sub(1, Ordering::SeqCst);
                }
                sched::uninstall_hook();
                acc
            }));
        }
        hs.into_iter().map(|h| h.join().unwrap()).collect()
    });
    let mut out = ExploreOut {
        programs: programs.len() as u64,
        ..Default::default()
    };
    let mut end_states = HashSet::new();
    let mut outcomes = HashSet::new();
    for a in accs {
        out.executions += a.execs;
        out.steps += a.steps;
        out.with_preemption += a.with_preemption;
        out.max_preemptions = out.max_preemptions.max(a.max_preemptions);
        out.diverged += a.diverged;
        out.nondeterministic_programs += a.nondet;
        out.other_ops += a.other_ops;
        end_states.extend(a.end_states);
        outcomes.extend(a.outcomes);
        for (k, v) in a.found {
            match out.found.get_mut(&k) {
                None => {
                    out.found.insert(k, v);
                }
                Some(e) => {
                    e.count += v.count;
                    if (v.preemptions, v.prefix.len(), v.program) < (e.preemptions, e.prefix.len(), e.program) {
                        let c = e.count;
                        *e = v;
                        e.count = c;
                    }
                }
            }
        }
    }
    out.end_states = end_states.len() as u64;
    out.outcomes = outcomes.len() as u64;
    out.outcome_set = outcomes;
    if stop.load(Ordering::Relaxed) {
        out.capped = Some(format!("wall cap {:?} reached; exploration incomplete", cfg.wall_cap));
    }
    out
}

// ---------------------------------------------------------------------------------------------
// program families

pub fn thread_alphabet() -> Vec<COp> {
    vec![
        COp::Add,
        COp::Match(2),
        COp::Match(4),
        COp::Match(20),
        COp::Cancel(1),
        COp::Cancel(2),
        COp::Amend(1, 8),
        COp::Amend(1, 2),
        COp::Amend(2, 1),
        COp::Move(1),
        COp::Read,
    ]
}

/// all multisets of `k` one-operation threads over the alphabet, for each book
pub fn programs_1op(k: usize, books: &[Book], alphabet: &[COp]) -> Vec<Program> {
    fn rec_build(alphabet: &[COp], k: usize, from: usize, cur: &mut Vec<COp>, out: &mut Vec<Vec<COp>>) {
        if cur.len() == k {
            out.push(cur.clone());
            return;
        }
        for i in from..alphabet.len() {
            cur.push(alphabet[i]);
            rec_build(alphabet, k, i, cur, out);
            cur.pop();
        }
    }
    let mut combos = vec![];
    rec_build(alphabet, k, 0, &mut vec![], &mut combos);
    let mut out = vec![];
    for b in books {
        for c in &combos {
            // programs made of reads only are pointless
            if c.iter().all(|o| *o == COp::Read) {
                continue;
            }
            out.push(Program {
                book: *b,
                threads: c.iter().map(|o| vec![*o]).collect(),
                coarse: vec![],
            });
        }
    }
    out
}

/// all unordered pairs of two-operation threads
pub fn programs_2x2(books: &[Book], alphabet: &[COp]) -> Vec<Program> {
    let mut seqs: Vec<Vec<COp>> = vec![];
    for a in alphabet {
        for b in alphabet {
            // a thread adds at most once (one private id per thread)
            if matches!(a, COp::Add | COp::AddIce) && matches!(b, COp::Add | COp::AddIce) {
                continue;
            }
            seqs.push(vec![*a, *b]);
        }
    }
    let mut out = vec![];
    for b in books {
        for i in 0..seqs.len() {
            for j in i..seqs.len() {
                out.push(Program {
                    book: *b,
                    threads: vec![seqs[i].clone(), seqs[j].clone()],
                    coarse: vec![],
                });
            }
        }
    }
    out
}

pub fn replay_doc(prog: &Program, fd: &Found, prop: &str, tier: &str, cfg: &ExecCfg) -> Value {
    json!({
        "engine": "sched",
        "property": prop,
        "tier": tier,
        "program": prog,
        "program_text": prog.describe(),
        "schedule_choices": fd.prefix,
        "preemptions": fd.preemptions,
        "yield_stats": cfg.yield_stats,
        "yield_counter": cfg.yield_counter,
        "max_steps": cfg.max_steps,
        "clock_step_ms": cfg.clock_step_ms,
    })
}


/// outcome fingerprint of a free-running execution on real OS threads (same definition as `Exec::outcome_hash`)
pub fn run_real_threads(prog: &Program) -> u64 {
    use std::sync::{Arc, Barrier};
    let level = Arc::new(PriceLevel::new(LEVEL_PRICE));
    let generator = Arc::new(UuidGenerator::new(NS));
    let book = Arc::new(book_orders(prog.book));
    for o in book.iter() {
        level.add_order(*o);
    }
    for u in book_prelude(prog.book) {
        let _ = level.update_order(u);
    }
    let barrier = Arc::new(Barrier::new(prog.threads.len()));
    let mut hs = vec![];
    for (tid, ops) in prog.threads.iter().enumerate() {
        let (level, generator, book, barrier, ops) = (level.clone(), generator.clone(), book.clone(), barrier.clone(), ops.clone());
        hs.push(std::thread::spawn(move || {
            barrier.wait();
            ops.iter().map(|op| run_op_on(&level, &generator, &book, tid, *op)).collect::<Vec<_>>()
        }));
    }
    let results: Vec<Vec<OpResult>> = hs.into_iter().map(|h| h.join().unwrap()).collect();
    let q = observe(&level);
    let recs: Vec<Rec> = q.orders.iter().map(rec).collect();
    let res: Vec<String> = results
        .iter()
        .map(|r| {
            r.iter()
                .map(|x| match x {
                    OpResult::Matched(m, _) => m.describe(),
                    o => format!("{o:?}"),
                })
                .collect::<Vec<_>>()
                .join(";")
        })
        .collect();
    hash64(&(recs, q.vis, q.hid, q.count, res))
}


/// "victim" programs: thread 0 issues one operation and is scheduled at every shared-memory step; thread 1 issues a
/// sequence of `len` operations and is scheduled only between them (each of its calls is atomic)
pub fn programs_victim(books: &[Book], victim_ops: &[COp], other_ops: &[COp], len: usize) -> Vec<Program> {
    let mut seqs: Vec<Vec<COp>> = vec![vec![]];
    for _ in 0..len {
        let mut next = vec![];
        for s in &seqs {
            for o in other_ops {
                // a thread adds at most once (one private id per thread)
                if matches!(o, COp::Add | COp::AddIce) && s.iter().any(|x| matches!(x, COp::Add | COp::AddIce)) {
                    continue;
                }
                let mut n = s.clone();
                n.push(*o);
                next.push(n);
            }
        }
        seqs = next;
    }
    let mut out = vec![];
    for b in books {
        for v in victim_ops {
            for s in &seqs {
                out.push(Program {
                    book: *b,
                    threads: vec![vec![*v], s.clone()],
                    coarse: vec![false, true],
                });
            }
        }
    }
    out
}
