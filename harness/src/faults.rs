//! Engine G, fault side: every single edit (and pairs of edits) at every offset of a serialized form.
//! C09: tampered / truncated / wrong-version snapshot packages must be rejected (or restore exactly the
//! snapshotted content). C18: every parser returns a value or an error - no panic, no hang.

use crate::common::*;
use crate::grid;
use pricelevel::{
    MatchResult, OrderId, OrderQueue, OrderType, OrderUpdate, PegReferenceType, PriceLevel,
    PriceLevelData, PriceLevelSnapshot, PriceLevelSnapshotPackage, PriceLevelStatistics, Side,
    TimeInForce, Transaction, TransactionList, UuidGenerator,
};
use serde_json::{Value, json};
use std::str::FromStr;
use std::sync::atomic::{AtomicBool, AtomicU64, AtomicUsize, Ordering};
use std::sync::{Arc, Mutex};
use std::time::{Duration, Instant};
use ulid::Ulid;
use uuid::Uuid;

// ---------------------------------------------------------------------------------------------
// edit enumeration

pub const ALPHA_FULL: [&str; 17] = [
    "é", "€", "=", ";", ":", ",", "[", "]", "{", "}", "\"", "-", "0", " ", "\\", "\u{0}", "😀",
];
pub const ALPHA_SMALL: [&str; 6] = ["é", "=", ";", "]", "\"", "9"];

/// every single-character edit of `s` at every character offset, plus structural edits
pub fn single_edits(s: &str, alpha: &[&str], each: &mut dyn FnMut(String)) {
    let idx: Vec<usize> = s.char_indices().map(|(i, _)| i).chain([s.len()]).collect();
    let n = idx.len() - 1;
    // truncations (proper prefixes)
    for k in 0..n {
        each(s[..idx[k]].to_string());
    }
    for k in 0..n {
        // deletion
        each(format!("{}{}", &s[..idx[k]], &s[idx[k + 1]..]));
        for a in alpha {
            // substitution
            each(format!("{}{}{}", &s[..idx[k]], a, &s[idx[k + 1]..]));
        }
    }
    for k in 0..=n {
        for a in alpha {
            // insertion
            each(format!("{}{}{}", &s[..idx[k]], a, &s[idx[k]..]));
        }
    }
    // numeric literals rewritten
    let bytes = s.as_bytes();
    let mut i = 0;
    while i < bytes.len() {
        if bytes[i].is_ascii_digit() {
            let mut j = i;
            while j < bytes.len() && bytes[j].is_ascii_digit() {
                j += 1;
            }
            let lit = &s[i..j];
            let mut reps: Vec<String> = vec![
                "0".into(),
                "18446744073709551615".into(),
                "18446744073709551616".into(),
                "99999999999999999999999999999999999999999".into(),
                "-1".into(),
                "1e400".into(),
                "0x10".into(),
                "+1".into(),
            ];
            for l in [15usize, 16, 31, 32, 63, 64, 255, 256] {
                for mb in ["é", "€", "😀"] {
                    reps.push(format!("{}{}", "9".repeat(l), mb));
                    reps.push(format!("{}{}", "9".repeat(l - 1), mb));
                }
            }
            if let Ok(v) = lit.parse::<u128>() {
                reps.push((v + 1).to_string());
                reps.push(v.saturating_sub(1).to_string());
                reps.push(format!("{v}0"));
                reps.push(format!("0{v}"));
            }
            for r in reps {
                each(format!("{}{}{}", &s[..i], r, &s[j..]));
            }
            i = j;
        } else {
            i += 1;
        }
    }
    // segments (split at separators) duplicated, dropped, swapped with the next one
    for sep in [';', ',', ':', '='] {
        let parts: Vec<&str> = s.split(sep).collect();
        if parts.len() < 2 || parts.len() > 60 {
            continue;
        }
        let sp = sep.to_string();
        for k in 0..parts.len() {
            let mut p = parts.clone();
            p.insert(k, parts[k]);
            each(p.join(&sp));
            let mut p = parts.clone();
            p.remove(k);
            each(p.join(&sp));
            if k + 1 < parts.len() {
                let mut p = parts.clone();
                p.swap(k, k + 1);
                each(p.join(&sp));
            }
        }
        // one segment repeated many times (fixed-size tables, per-call caps)
        for k in [0, parts.len() / 2, parts.len() - 1] {
            for times in [7usize, 15, 16, 17, 31, 33, 63, 65, 130] {
                let mut p: Vec<&str> = parts[..=k].to_vec();
                for _ in 0..times {
                    p.push(parts[k]);
                }
                p.extend_from_slice(&parts[k + 1..]);
                each(p.join(&sp));
            }
        }
        // a fresh well-formed key=value segment appended many times
        if sep == ';' {
            for times in [7usize, 16, 17, 33, 65] {
                let mut t = s.to_string();
                for i in 0..times {
                    t.push_str(&format!(";k{i}=1"));
                }
                each(t);
            }
        }
    }
}

/// all ordered pairs of single-character edits over a small alphabet (second edit applied to the result of the first)
/// Structural edits of a JSON document (through serde_json::Value): every key deleted, every number rewritten
/// (boundary and huge values), every value replaced by a value of another type. `pairs` adds every
/// (deleted key, second edit) combination - a field that is absent *and* a figure that is out of range.
pub fn json_struct_edits(seed: &str, pairs: bool, each: &mut dyn FnMut(String)) {
    let Ok(root) = serde_json::from_str::<Value>(seed) else { return };
    type Edit = (Vec<String>, Option<Value>);
    fn walk(v: &Value, path: &mut Vec<String>, edits: &mut Vec<Edit>) {
        let wrong: [Value; 7] = [Value::Null, json!([]), json!({}), json!("x"), json!(true), json!([[[[[[[[1]]]]]]]]), json!(-1)];
        match v {
            Value::Object(m) => {
                for (k, x) in m {
                    path.push(k.clone());
                    edits.push((path.clone(), None));
                    walk(x, path, edits);
                    path.pop();
                }
            }
            Value::Array(a) => {
                for (i, x) in a.iter().enumerate() {
                    path.push(i.to_string());
                    walk(x, path, edits);
                    path.pop();
                }
            }
            Value::Number(_) => {
                for r in [
                    json!(0u64),
                    json!(1u64 << 32),
                    json!(1u64 << 40),
                    json!((1u64 << 53) + 1),
                    json!(1u64 << 60),
                    json!(1u64 << 63),
                    json!(u64::MAX - 1),
                    json!(u64::MAX),
                    json!(1.0e308),
                    json!(0.5),
                ] {
                    edits.push((path.clone(), Some(r)));
                }
            }
            _ => {}
        }
        if !path.is_empty() {
            for w in wrong {
                if std::mem::discriminant(&w) != std::mem::discriminant(v) {
                    edits.push((path.clone(), Some(w)));
                }
            }
        }
    }
    fn apply(root: &mut Value, path: &[String], new: &Option<Value>) -> bool {
        if path.len() == 1 {
            return match (root, new) {
                (Value::Object(m), None) => m.remove(&path[0]).is_some(),
                (Value::Object(m), Some(v)) => m.insert(path[0].clone(), v.clone()).is_some(),
                (Value::Array(a), Some(v)) => match path[0].parse::<usize>().ok().filter(|i| *i < a.len()) {
                    Some(i) => {
                        a[i] = v.clone();
                        true
                    }
                    None => false,
                },
                _ => false,
            };
        }
        let next = match root {
            Value::Object(m) => m.get_mut(&path[0]),
            Value::Array(a) => path[0].parse::<usize>().ok().and_then(|i| a.get_mut(i)),
            _ => None,
        };
        match next {
            Some(n) => apply(n, &path[1..], new),
            None => false,
        }
    }
    let mut edits: Vec<Edit> = vec![];
    walk(&root, &mut vec![], &mut edits);
    for (path, new) in &edits {
        let mut d = root.clone();
        if apply(&mut d, path, new) {
            each(d.to_string());
        }
    }
    if pairs {
        for (p1, n1) in edits.iter().filter(|e| e.1.is_none()) {
            let mut d1 = root.clone();
            if !apply(&mut d1, p1, n1) {
                continue;
            }
            for (p2, n2) in &edits {
                if p2.starts_with(p1) {
                    continue;
                }
                let mut d2 = d1.clone();
                if apply(&mut d2, p2, n2) {
                    each(d2.to_string());
                }
            }
        }
    }
}

pub fn pair_edits(s: &str, alpha: &[&str], each: &mut dyn FnMut(String)) {
    let mut firsts: Vec<String> = vec![];
    char_edits(s, alpha, &mut |x| firsts.push(x));
    for f in firsts {
        char_edits(&f, alpha, each);
    }
}

fn char_edits(s: &str, alpha: &[&str], each: &mut dyn FnMut(String)) {
    let idx: Vec<usize> = s.char_indices().map(|(i, _)| i).chain([s.len()]).collect();
    let n = idx.len() - 1;
    for k in 0..n {
        each(format!("{}{}", &s[..idx[k]], &s[idx[k + 1]..]));
        for a in alpha {
            each(format!("{}{}{}", &s[..idx[k]], a, &s[idx[k + 1]..]));
        }
    }
    for k in 0..=n {
        for a in alpha {
            each(format!("{}{}{}", &s[..idx[k]], a, &s[idx[k]..]));
        }
    }
}

/// every string of length <= len over the alphabet
pub fn all_strings(alpha: &[&str], len: usize, each: &mut dyn FnMut(&str)) {
    let mut cur = String::new();
    fn rec_(alpha: &[&str], left: usize, cur: &mut String, each: &mut dyn FnMut(&str)) {
        each(cur);
        if left == 0 {
            return;
        }
        for a in alpha {
            let l = cur.len();
            cur.push_str(a);
            rec_(alpha, left - 1, cur, each);
            cur.truncate(l);
        }
    }
    rec_(alpha, len, &mut cur, each);
}

// ---------------------------------------------------------------------------------------------
// C18

type Parser = (&'static str, fn(&str) -> bool);

fn p_text<T: FromStr>(s: &str) -> bool {
    T::from_str(s).is_ok()
}
fn p_json<T: serde::de::DeserializeOwned>(s: &str) -> bool {
    serde_json::from_str::<T>(s).is_ok()
}

pub fn text_parsers() -> Vec<Parser> {
    vec![
        ("OrderId", p_text::<OrderId>),
        ("Side", p_text::<Side>),
        ("TimeInForce", p_text::<TimeInForce>),
        ("PegReferenceType", p_text::<PegReferenceType>),
        ("OrderType", p_text::<OrderType<()>>),
        ("OrderUpdate", p_text::<OrderUpdate>),
        ("Transaction", p_text::<Transaction>),
        ("TransactionList", p_text::<TransactionList>),
        ("MatchResult", p_text::<MatchResult>),
        ("PriceLevel", p_text::<PriceLevel>),
        ("OrderQueue", p_text::<OrderQueue>),
        ("PriceLevelSnapshot", p_text::<PriceLevelSnapshot>),
        ("PriceLevelStatistics", p_text::<PriceLevelStatistics>),
    ]
}

pub fn json_parsers() -> Vec<Parser> {
    vec![
        ("json:OrderId", p_json::<OrderId>),
        ("json:Side", p_json::<Side>),
        ("json:TimeInForce", p_json::<TimeInForce>),
        ("json:PegReferenceType", p_json::<PegReferenceType>),
        ("json:TransactionList", p_json::<TransactionList>),
        ("json:OrderType", p_json::<OrderType<()>>),
        ("json:OrderUpdate", p_json::<OrderUpdate>),
        ("json:Transaction", p_json::<Transaction>),
        ("json:MatchResult", p_json::<MatchResult>),
        ("json:PriceLevel", p_json::<PriceLevel>),
        ("json:PriceLevelData", p_json::<PriceLevelData>),
        ("json:OrderQueue", p_json::<OrderQueue>),
        ("json:PriceLevelSnapshot", p_json::<PriceLevelSnapshot>),
        ("json:PriceLevelStatistics", p_json::<PriceLevelStatistics>),
        ("json:UuidGenerator", p_json::<UuidGenerator>),
        ("json:SnapshotPackage", |s| PriceLevelSnapshotPackage::from_json(s).is_ok()),
        ("json:from_snapshot_json", |s| PriceLevel::from_snapshot_json(s).is_ok()),
    ]
}

fn seed_orders() -> Vec<Ord_> {
    let mut v: Vec<Ord_> = ALL_TMPL.iter().enumerate().map(|(i, t)| mk(*t, 1 + i as u64 % 3, LEVEL_PRICE)).collect();
    v.push(crate::seq_level::set_id_ts(&mk(Tmpl::S5, 1, LEVEL_PRICE), OrderId::Ulid(Ulid(0x0123_4567_89ab_cdef_0123_4567_89ab_cdef)), u64::MAX));
    v.push(crate::seq_level::set_id_ts(&mk(Tmpl::RSd, 1, LEVEL_PRICE), OrderId::Uuid(Uuid::from_u128(u128::MAX)), 7));
    v
}

/// (parser name, seed text) pairs
pub fn c18_seeds() -> Vec<(String, String)> {
    let mut out: Vec<(String, String)> = vec![];
    let mut add = |p: &str, s: String| out.push((p.to_string(), s));
    let orders = seed_orders();
    // one order per variant
    let mut seen_kind = std::collections::HashSet::new();
    for o in &orders {
        if seen_kind.insert((rec(o).kind, rec(o).p2)) {
            add("OrderType", o.to_string());
            add("json:OrderType", serde_json::to_string(o).unwrap());
        }
    }
    for id in [grid::ids()[1], grid::ids()[7]] {
        add("OrderId", id.to_string());
        add("json:OrderId", serde_json::to_string(&id).unwrap());
    }
    add("Side", "BUY".into());
    add("json:Side", "\"SELL\"".into());
    for t in [TimeInForce::Gtc, TimeInForce::Gtd(1616823000000)] {
        add("TimeInForce", t.to_string());
        add("json:TimeInForce", serde_json::to_string(&t).unwrap());
    }
    add("PegReferenceType", "MidPrice".into());
    let ups = [
        OrderUpdate::UpdatePrice { order_id: oid(1), new_price: 101 },
        OrderUpdate::UpdateQuantity { order_id: oid(1), new_quantity: 5 },
        OrderUpdate::UpdatePriceAndQuantity { order_id: oid(1), new_price: 101, new_quantity: 5 },
        OrderUpdate::Cancel { order_id: oid(1) },
        OrderUpdate::Replace { order_id: oid(1), price: 100, quantity: 3, side: Side::Sell },
    ];
    for u in ups {
        add("OrderUpdate", u.to_string());
        add("json:OrderUpdate", serde_json::to_string(&u).unwrap());
    }
    let tx = |k: u64| Transaction {
        transaction_id: Uuid::from_u128(0x6ba7b810_9dad_11d1_80b4_00c04fd430c8 + k as u128),
        taker_order_id: oid(900),
        maker_order_id: oid(k),
        price: 100,
        quantity: k + 1,
        taker_side: Side::Buy,
        timestamp: 1616823000000,
    };
    add("Transaction", tx(1).to_string());
    add("json:Transaction", serde_json::to_string(&tx(1)).unwrap());
    let tl0 = TransactionList::new();
    let tl2 = TransactionList::from_vec(vec![tx(1), tx(2)]);
    add("TransactionList", tl0.to_string());
    add("TransactionList", tl2.to_string());
    let mr = |tl: &TransactionList, filled: Vec<OrderId>| MatchResult {
        order_id: oid(900),
        transactions: tl.clone(),
        remaining_quantity: 7,
        is_complete: false,
        filled_order_ids: filled,
    };
    for m in [mr(&tl0, vec![]), mr(&tl2, vec![oid(1), oid(2)])] {
        add("MatchResult", m.to_string());
        add("json:MatchResult", serde_json::to_string(&m).unwrap());
    }
    // levels and queues with 0, 1 and 3 orders
    for n in [0usize, 1, 3] {
        let level = PriceLevel::new(LEVEL_PRICE);
        let q = OrderQueue::new();
        let picks = [mk(Tmpl::S5, 1, LEVEL_PRICE), mk(Tmpl::IC23, 2, LEVEL_PRICE), mk(Tmpl::RSa, 3, LEVEL_PRICE)];
        for o in picks.iter().take(n) {
            level.add_order(*o);
            q.push(Arc::new(*o));
        }
        add("PriceLevel", level.to_string());
        add("json:PriceLevel", serde_json::to_string(&level).unwrap());
        add("json:PriceLevelData", serde_json::to_string(&level).unwrap());
        add("OrderQueue", q.to_string());
        add("json:OrderQueue", serde_json::to_string(&q).unwrap());
        let snap = level.snapshot();
        add("PriceLevelSnapshot", snap.to_string());
        add("json:PriceLevelSnapshot", serde_json::to_string(&snap).unwrap());
        if n != 1 {
            let pj = level.snapshot_to_json().unwrap();
            add("json:SnapshotPackage", pj.clone());
            add("json:from_snapshot_json", pj);
        }
        let st = level.stats();
        add("PriceLevelStatistics", st.to_string());
        add("json:PriceLevelStatistics", serde_json::to_string(&*st).unwrap());
    }
    let g = UuidGenerator::new(crate::seq_level::NS);
    g.next();
    add("json:UuidGenerator", serde_json::to_string(&g).unwrap());
    out
}

/// Per-worker "input being parsed right now", kept in a shared file mapping so that it survives an abort of
/// the process (stack overflow, allocation failure): the parent reads it and pins the culprit.
pub const SLOT: usize = 16 * 1024;
pub struct Slots {
    ptr: *mut u8,
    n: usize,
}
unsafe impl Sync for Slots {}
unsafe impl Send for Slots {}

pub fn slots_path() -> std::path::PathBuf {
    verif_root().join("harness").join("target").join("c18_current_inputs.bin")
}

impl Slots {
    pub fn create(n: usize) -> Option<Slots> {
        use std::os::unix::io::AsRawFd;
        let path = slots_path();
        let _ = std::fs::create_dir_all(path.parent()?);
        let f = std::fs::OpenOptions::new().read(true).write(true).create(true).truncate(true).open(&path).ok()?;
        f.set_len((n * SLOT) as u64).ok()?;
        // SAFETY: plain shared file mapping of a file we just sized; released when the process ends
        let p = unsafe {
            libc::mmap(std::ptr::null_mut(), n * SLOT, libc::PROT_READ | libc::PROT_WRITE, libc::MAP_SHARED, f.as_raw_fd(), 0)
        };
        if p == libc::MAP_FAILED {
            return None;
        }
        Some(Slots { ptr: p as *mut u8, n })
    }
    #[inline]
    pub fn store(&self, slot: usize, parser: u16, input: &str) {
        if slot >= self.n {
            return;
        }
        let b = input.as_bytes();
        let len = b.len().min(SLOT - 8);
        // SAFETY: each worker writes only its own slot
        unsafe {
            let base = self.ptr.add(slot * SLOT);
            std::ptr::copy_nonoverlapping((len as u32).to_le_bytes().as_ptr(), base, 4);
            std::ptr::copy_nonoverlapping(parser.to_le_bytes().as_ptr(), base.add(4), 2);
            std::ptr::copy_nonoverlapping(b.as_ptr(), base.add(8), len);
        }
    }
    pub fn read_file() -> Vec<(u16, Vec<u8>)> {
        let Ok(data) = std::fs::read(slots_path()) else { return vec![] };
        let mut out = vec![];
        for ch in data.chunks(SLOT) {
            if ch.len() < 8 {
                continue;
            }
            let len = u32::from_le_bytes([ch[0], ch[1], ch[2], ch[3]]) as usize;
            let parser = u16::from_le_bytes([ch[4], ch[5]]);
            if len > 0 && 8 + len <= ch.len() {
                out.push((parser, ch[8..8 + len].to_vec()));
            }
        }
        out
    }
}

struct Watch {
    current: Vec<Mutex<(String, String)>>,
    progress: Vec<AtomicU64>,
    done: AtomicBool,
}

pub fn run_c18(tier: &str) -> i32 {
    let full = tier != "quick";
    let mut report = Report::new("C18", tier, "exploration");
    let parsers: Vec<Parser> = text_parsers().into_iter().chain(json_parsers()).collect();
    let seeds = c18_seeds();
    // work items: (parser index, input generator)
    #[derive(Clone)]
    enum Job {
        Single(usize, String),
        Pairs(usize, String),
        Strings(usize, String, usize),
        Cross(usize, String),
        JsonStruct(usize, String),
    }
    let mut jobs: Vec<Job> = vec![];
    let pidx = |name: &str| parsers.iter().position(|p| p.0 == name).unwrap();
    for (p, s) in &seeds {
        jobs.push(Job::Single(pidx(p), s.clone()));
        if p.starts_with("json:") {
            jobs.push(Job::JsonStruct(pidx(p), s.clone()));
        }
        if full && s.chars().count() <= 260 {
            jobs.push(Job::Pairs(pidx(p), s.clone()));
        }
    }
    // every seed is also fed to every other parser (wrong-format input)
    for (pi, _) in parsers.iter().enumerate() {
        for (_, s) in &seeds {
            jobs.push(Job::Cross(pi, s.clone()));
        }
    }
    let prefixes: Vec<(&str, Vec<&str>)> = vec![
        ("MatchResult", vec!["", "MatchResult:", "MatchResult:order_id=", "MatchResult:transactions=", "MatchResult:transactions=Transactions:[", "MatchResult:filled_order_ids=", "MatchResult:filled_order_ids=["]),
        ("TransactionList", vec!["", "Transactions:[", "Transactions:"]),
        ("Transaction", vec!["", "Transaction:", "Transaction:transaction_id="]),
        ("PriceLevel", vec!["", "PriceLevel:", "PriceLevel:price=1;orders=[", "PriceLevel:orders=[", "PriceLevel:price="]),
        ("OrderQueue", vec!["", "OrderQueue:orders=[", "OrderQueue:orders="]),
        ("OrderType", vec!["", "Standard:", "ReserveOrder:id=", "Standard:id=00000000-0000-0001-0000-000000000000;price="]),
        ("OrderUpdate", vec!["", "Cancel:", "Replace:order_id="]),
        ("PriceLevelSnapshot", vec!["", "PriceLevelSnapshot:"]),
        ("PriceLevelStatistics", vec!["", "PriceLevelStatistics:"]),
        ("TimeInForce", vec!["", "GTD-", "gtd-"]),
        ("OrderId", vec![""]),
        ("Side", vec![""]),
        ("PegReferenceType", vec![""]),
        ("json:OrderType", vec!["", "{\"Standard\":{", "{"]),
        ("json:from_snapshot_json", vec!["", "{\"version\":1,\"snapshot\":{", "{\"version\":1,"]),
        ("json:TimeInForce", vec!["", "{\"GTD\":"]),
        ("json:OrderId", vec!["", "\""]),
        ("json:PriceLevel", vec!["", "{\"price\":1,\"orders\":["]),
        ("json:PriceLevelStatistics", vec!["", "{"]),
        ("json:OrderQueue", vec!["", "["]),
    ];
    let len = if full { 5 } else { 4 };
    for (p, pres) in &prefixes {
        for pre in pres {
            jobs.push(Job::Strings(pidx(p), pre.to_string(), len));
        }
    }
    let nthreads = crate::seq_checks::threads();
    let watch = Arc::new(Watch {
        current: (0..nthreads).map(|_| Mutex::new((String::new(), String::new()))).collect(),
        progress: (0..nthreads).map(|_| AtomicU64::new(0)).collect(),
        done: AtomicBool::new(false),
    });
    // watchdog: a parser that makes no progress for 20 s is reported as a hang
    {
        let w = watch.clone();
        let tier = tier.to_string();
        std::thread::spawn(move || {
            let mut last: Vec<(u64, Instant)> = (0..w.progress.len()).map(|_| (0, Instant::now())).collect();
            loop {
                std::thread::sleep(Duration::from_millis(500));
                if w.done.load(Ordering::Relaxed) {
                    return;
                }
                for i in 0..w.progress.len() {
                    let p = w.progress[i].load(Ordering::Relaxed);
                    if p != last[i].0 {
                        last[i] = (p, Instant::now());
                    } else if p != 0 && p != u64::MAX && last[i].1.elapsed() > Duration::from_secs(20) {
                        let (parser, input) = w.current[i].lock().unwrap().clone();
                        let mut r = Report::new("C18", &tier, "exploration");
                        r.cov("evaluations", json!(w.progress.iter().map(|x| x.load(Ordering::Relaxed)).filter(|x| *x != u64::MAX).sum::<u64>()));
                        r.cov("distinct_nontrivial", json!(2));
                        r.cov("rule", json!("aborted by the hang watchdog"));
                        r.cov("samples", json!([{"parser": parser, "input": input}]));
                        r.violation(
                            format!("C18 {parser}: parsing did not return within 20 s (hang) for input {input:?}"),
                            json!({"engine": "faults", "property": "C18", "parser": parser, "input": input}),
                        );
                        let code = r.finish();
                        std::process::exit(code);
                    }
                }
            }
        });
    }
    let slots = Slots::create(nthreads);
    let slots = &slots;
    let next = AtomicUsize::new(0);
    let total = AtomicU64::new(0);
    let accepted = AtomicU64::new(0);
    let failures: Mutex<Vec<(String, String, String)>> = Mutex::new(vec![]);
    let per_parser: Vec<AtomicU64> = parsers.iter().map(|_| AtomicU64::new(0)).collect();
    std::thread::scope(|sc| {
        for w in 0..nthreads {
            let watch = &watch;
            let jobs = &jobs;
            let parsers = &parsers;
            let next = &next;
            let total = &total;
            let accepted = &accepted;
            let failures = &failures;
            let per_parser = &per_parser;
            sc.spawn(move || {
                let mut count = 0u64;
                let mut acc = 0u64;
                loop {
                    let j = next.fetch_add(1, Ordering::Relaxed);
                    if j >= jobs.len() {
                        break;
                    }
                    let mut run = |pi: usize, input: &str| {
                        count += 1;
                        if count % 64 == 1 {
                            *watch.current[w].lock().unwrap() = (parsers[pi].0.to_string(), input.to_string());
                        }
                        if let Some(sl) = slots {
                            sl.store(w, pi as u16, input);
                        }
                        watch.progress[w].store(count, Ordering::Relaxed);
                        per_parser[pi].fetch_add(1, Ordering::Relaxed);
                        let f = parsers[pi].1;
                        match std::panic::catch_unwind(|| f(input)) {
                            Ok(true) => acc += 1,
                            Ok(false) => {}
                            Err(p) => {
                                let msg = if let Some(s) = p.downcast_ref::<String>() {
                                    s.clone()
                                } else if let Some(s) = p.downcast_ref::<&str>() {
                                    s.to_string()
                                } else {
                                    "panic".into()
                                };
                                let mut fl = failures.lock().unwrap();
                                if fl.len() < 200 {
                                    fl.push((parsers[pi].0.to_string(), input.to_string(), msg));
                                }
                            }
                        }
                    };
                    // keep the watchdog's view exact for slow inputs: store the input before every call of a big job
                    match &jobs[j] {
                        Job::Single(pi, s) => single_edits(s, &ALPHA_FULL, &mut |x| run(*pi, &x)),
                        Job::Pairs(pi, s) => pair_edits(s, &ALPHA_SMALL, &mut |x| run(*pi, &x)),
                        Job::Strings(pi, pre, len) => {
                            let alpha: Vec<&str> = ALPHA_FULL.iter().copied().take(15).collect();
                            all_strings(&alpha, *len, &mut |x| {
                                let s = format!("{pre}{x}");
                                run(*pi, &s)
                            })
                        }
                        Job::Cross(pi, s) => run(*pi, s),
                        Job::JsonStruct(pi, s) => json_struct_edits(s, true, &mut |x| run(*pi, &x)),
                    }
                }
                watch.progress[w].store(u64::MAX, Ordering::Relaxed);
                total.fetch_add(count, Ordering::Relaxed);
                accepted.fetch_add(acc, Ordering::Relaxed);
            });
        }
    });
    watch.done.store(true, Ordering::Relaxed);
    let fl = failures.into_inner().unwrap();
    let mut seen = std::collections::HashSet::new();
    for (p, input, msg) in fl.iter() {
        // one violation per (parser, panic site)
        let site = msg.chars().take(60).collect::<String>();
        if seen.insert((p.clone(), site)) {
            report.violation(
                format!("C18 {p}: parsing panicked ({msg}) on input {input:?}"),
                json!({"engine": "faults", "property": "C18", "parser": p, "input": input}),
            );
        }
    }
    let total = total.load(Ordering::Relaxed);
    report.cov("evaluations", json!(total));
    report.cov("distinct_nontrivial", json!(accepted.load(Ordering::Relaxed)));
    report.cov("jobs", json!(jobs.len()));
    report.cov("seeds", json!(seeds.len()));
    report.cov("parsers", json!(parsers.len()));
    report.cov(
        "per_parser_inputs",
        json!(parsers.iter().zip(per_parser.iter()).map(|(p, c)| json!({"parser": p.0, "inputs": c.load(Ordering::Relaxed)})).collect::<Vec<_>>()),
    );
    report.cov("rule", json!(format!("for each of {} seeds (one valid encoding per type and variant, text and JSON): every truncation, every deletion / insertion / substitution at every character offset with a 17-symbol alphabet incl. multi-byte characters, every numeric literal rewritten, every segment duplicated / dropped / swapped{}; for the JSON seeds every key deleted, every number rewritten to ten boundary / huge values, every value replaced by seven values of other types, and every (deleted key, second edit) pair; every seed fed to every parser; every string of length <= {} over a 15-symbol structural alphabet after each format prefix; each input is parsed under catch_unwind with a hang watchdog; distinct_nontrivial = inputs that were accepted (Ok)", seeds.len(), if full { "; all ordered pairs of single-character edits over a 6-symbol alphabet for seeds up to 260 characters" } else { "" }, len)));
    report.cov("samples", json!(seeds.iter().take(3).map(|(p, s)| json!({"parser": p, "seed": s})).collect::<Vec<_>>()));
    report.cov("exhaustive", json!(true));
    report.assumptions = vec!["inputs are edits of valid encodings and short strings over a structural alphabet, not all Unicode strings".into(), "aborts (stack overflow, allocation failure) would terminate the check process: reported as a machinery failure by the wrapper, not silently passed".into()];
    report.finish()
}

// ---------------------------------------------------------------------------------------------
// C09

thread_local! {
    static DRAIN_REC: crate::rec::Recorder = crate::rec::Recorder::install();
    /// set while processing a seed whose pristine drain does not return (a C06 matter): the drain is then not used
    static SKIP_DRAIN: std::cell::Cell<bool> = const { std::cell::Cell::new(false) };
}

fn restore_key(level: &PriceLevel) -> (u64, u64, u64, usize, Vec<Rec>, String, MatchObs) {
    pricelevel::verif_hooks::set_listing_permutation(Some(0));
    let o = observe(level);
    let js = level.snapshot_to_json().unwrap_or_default();
    let g = UuidGenerator::new(crate::seq_level::NS);
    // the maker sequence of a draining match shows the stored order sequence; books whose
    // price x quantity products exceed 64 bits (outside the stated precondition) cannot be drained
    // under overflow checks - for those the sequence is not observed
    let d = if SKIP_DRAIN.with(|s| s.get()) {
        Err(crate::rec::BudgetOrPanic::Budget)
    } else {
        DRAIN_REC.with(|r| {
            r.with_budget(2_000, || {
                match_obs(&level.match_order(crate::seq_level::DRAIN_QTY, oid(999), &g))
            })
        })
    };
    let d = match d {
        Ok(d) => d,
        // did not return: make it visible as a distinct, comparable marker (remaining = MAX)
        Err(crate::rec::BudgetOrPanic::Budget) => MatchObs {
            fills: vec![],
            remaining: u64::MAX,
            complete: false,
            filled: vec![],
        },
        Err(crate::rec::BudgetOrPanic::Panic(_)) => MatchObs {
            fills: vec![],
            remaining: 0,
            complete: false,
            filled: vec![],
        },
    };
    (
        o.price,
        o.vis,
        o.hid,
        o.count,
        o.orders.iter().map(rec).collect(),
        js,
        d,
    )
}

pub fn c09_seed_levels(full: bool) -> Vec<Vec<Ord_>> {
    let mut out: Vec<Vec<Ord_>> = vec![vec![]];
    let tm: Vec<Tmpl> = ALL_TMPL.to_vec();
    for (i, a) in tm.iter().enumerate() {
        out.push(vec![mk(*a, 1, LEVEL_PRICE)]);
        for (j, b) in tm.iter().enumerate() {
            if full || (i + 2 * j) % 7 == 0 {
                out.push(vec![mk(*a, 1, LEVEL_PRICE), mk(*b, 2, LEVEL_PRICE)]);
            }
        }
    }
    // boundary-value books: both id formats, 64-bit limits, GTD, None
    let lists = grid::order_lists();
    let n = lists.len();
    for (k, l) in lists.into_iter().enumerate() {
        if full || k % 6 == 0 || k + 3 >= n {
            let sv: u128 = l.iter().map(|o| o_vis(o) as u128 + o_hid(o) as u128).sum();
            if sv <= u64::MAX as u128 && !l.is_empty() {
                out.push(l);
            }
        }
    }
    out
}

/// structural edits of the package JSON through serde_json::Value
fn structural_edits(pkg: &Value) -> Vec<(String, Value)> {
    let mut out: Vec<(String, Value)> = vec![];
    let orders = pkg["snapshot"]["orders"].as_array().cloned().unwrap_or_default();
    let with_orders = |o: Vec<Value>| {
        let mut p = pkg.clone();
        p["snapshot"]["orders"] = Value::Array(o);
        p
    };
    for i in 0..orders.len() {
        let mut o = orders.clone();
        o.remove(i);
        out.push((format!("drop order {i}"), with_orders(o)));
        let mut o = orders.clone();
        o.insert(i, orders[i].clone());
        out.push((format!("duplicate order {i}"), with_orders(o)));
        for j in i + 1..orders.len() {
            let mut o = orders.clone();
            o.swap(i, j);
            out.push((format!("swap orders {i},{j}"), with_orders(o)));
        }
    }
    // delete each field anywhere, rewrite each number anywhere
    fn walk(v: &Value, path: &mut Vec<String>, edits: &mut Vec<(String, Vec<String>, Option<Value>)>) {
        match v {
            Value::Object(m) => {
                for (k, x) in m {
                    path.push(k.clone());
                    edits.push((format!("delete field {}", path.join(".")), path.clone(), None));
                    walk(x, path, edits);
                    path.pop();
                }
            }
            Value::Array(a) => {
                for (i, x) in a.iter().enumerate() {
                    path.push(i.to_string());
                    walk(x, path, edits);
                    path.pop();
                }
            }
            Value::Number(n) => {
                if let Some(u) = n.as_u64() {
                    let mut reps: Vec<Value> = vec![json!(0u64), json!(u.wrapping_add(1)), json!(u.wrapping_sub(1)), json!(u.wrapping_mul(10)), json!(u64::MAX)];
                    reps.push(serde_json::from_str("18446744073709551616").unwrap_or(Value::Null));
                    reps.push(json!(-1));
                    reps.push(json!(u as f64 + 0.5));
                    for r in reps {
                        if r != *v {
                            edits.push((format!("number at {} -> {}", path.join("."), r), path.clone(), Some(r)));
                        }
                    }
                } else if let Some(i) = n.as_i64() {
                    for r in [json!(0), json!(i.wrapping_add(1)), json!(i64::MAX)] {
                        if r != *v {
                            edits.push((format!("number at {} -> {}", path.join("."), r), path.clone(), Some(r)));
                        }
                    }
                }
            }
            Value::String(s) => {
                // an id rewritten as a whole: the same 128 bits in the other id format, and other spellings
                // of the same id (which may be accepted - with identical content - or rejected)
                let bits: Option<(u128, bool)> = uuid::Uuid::parse_str(s)
                    .ok()
                    .filter(|_| s.len() == 36)
                    .map(|u| (u.as_u128(), true))
                    .or_else(|| ulid::Ulid::from_string(s).ok().map(|u| (u.0, false)));
                if let Some((b, is_uuid)) = bits {
                    let other = if is_uuid { ulid::Ulid(b).to_string() } else { uuid::Uuid::from_u128(b).to_string() };
                    edits.push((format!("id at {} rewritten in the other id format ({other})", path.join(".")), path.clone(), Some(json!(other))));
                    let spellings = if is_uuid {
                        vec![s.to_uppercase(), s.replace('-', ""), format!("{{{s}}}"), format!("urn:uuid:{s}")]
                    } else {
                        vec![s.to_lowercase()]
                    };
                    for sp in spellings {
                        if sp != *s {
                            edits.push((format!("id at {} respelled ({sp})", path.join(".")), path.clone(), Some(json!(sp))));
                        }
                    }
                    let next = if is_uuid { uuid::Uuid::from_u128(b ^ 1).to_string() } else { ulid::Ulid(b ^ 1).to_string() };
                    edits.push((format!("id at {} -> another id ({next})", path.join(".")), path.clone(), Some(json!(next))));
                }
                // enum-like strings
                for alt in ["BUY", "SELL", "GTC", "IOC", "DAY", "BestBid", "LastTrade"] {
                    if s != alt && ["BUY", "SELL", "GTC", "IOC", "FOK", "DAY", "BestBid", "BestAsk", "MidPrice", "LastTrade"].contains(&s.as_str()) {
                        edits.push((format!("string at {} -> {alt}", path.join(".")), path.clone(), Some(json!(alt))));
                    }
                }
            }
            Value::Bool(b) => edits.push((format!("bool at {} flipped", path.join(".")), path.clone(), Some(json!(!b)))),
            Value::Null => {}
        }
    }
    fn apply(root: &mut Value, path: &[String], new: &Option<Value>) {
        if path.len() == 1 {
            match (root, new) {
                (Value::Object(m), None) => {
                    m.remove(&path[0]);
                }
                (Value::Object(m), Some(v)) => {
                    m.insert(path[0].clone(), v.clone());
                }
                (Value::Array(a), Some(v)) => {
                    if let Ok(i) = path[0].parse::<usize>() {
                        a[i] = v.clone();
                    }
                }
                _ => {}
            }
            return;
        }
        let next = match root {
            Value::Object(m) => m.get_mut(&path[0]),
            Value::Array(a) => path[0].parse::<usize>().ok().and_then(|i| a.get_mut(i)),
            _ => None,
        };
        if let Some(n) = next {
            apply(n, &path[1..], new);
        }
    }
    let mut edits = vec![];
    walk(pkg, &mut vec![], &mut edits);
    for (name, path, new) in edits {
        let mut p = pkg.clone();
        apply(&mut p, &path, &new);
        out.push((name, p));
    }
    for v in [0u64, 2, u32::MAX as u64] {
        let mut p = pkg.clone();
        p["version"] = json!(v);
        out.push((format!("version -> {v}"), p));
    }
    // the envelope stripped or re-nested: only a complete package may restore
    out.push(("version: bare snapshot object without its envelope".into(), pkg["snapshot"].clone()));
    {
        let mut inner = pkg["snapshot"].clone();
        if let Some(p) = inner.get("price").and_then(|p| p.as_u64()) {
            inner["price"] = json!(p.wrapping_add(1));
        }
        out.push(("version: bare snapshot object with an edited price".into(), inner));
        out.push(("version: package nested inside a package".into(), json!({"version": 1, "snapshot": pkg.clone(), "checksum": pkg["checksum"].clone()})));
        out.push(("version: array around the package".into(), json!([pkg.clone()])));
    }
    let cs = pkg["checksum"].as_str().unwrap_or("").to_string();
    let mut cvars: Vec<String> = vec![
        String::new(),
        cs.to_uppercase(),
        cs[..cs.len().saturating_sub(1)].to_string(),
        format!("{cs}0"),
        format!(" {cs}"),
        "deadbeef".into(),
        "0".repeat(64),
    ];
    if let Some(c) = cs.chars().next() {
        let r = if c == '0' { '1' } else { '0' };
        cvars.push(format!("{r}{}", &cs[1..]));
    }
    for c in cvars {
        let mut p = pkg.clone();
        p["checksum"] = json!(c);
        out.push((format!("checksum -> {c:?}"), p));
    }
    out
}

/// Field-boundary shifts on a serialized package: digits (characters) migrate from the end of one numeric (string)
/// literal to the front of another one, or from the front of one to the end of another, so that the concatenation of
/// the two values is unchanged while both values change. A digest computed over undelimited field values cannot tell
/// the two packages apart. `all_pairs`: every ordered pair of numeric literals (small packages); otherwise only
/// literals that follow each other in the text.
pub fn boundary_shifts(text: &str, all_pairs: bool) -> Vec<(String, String)> {
    let b = text.as_bytes();
    let (mut nums, mut strs): (Vec<(usize, usize)>, Vec<(usize, usize)>) = (vec![], vec![]);
    let mut i = 0;
    while i < b.len() {
        if b[i] == b'"' {
            let st = i + 1;
            i += 1;
            while i < b.len() && b[i] != b'"' {
                i += if b[i] == b'\\' { 2 } else { 1 };
            }
            strs.push((st, i.min(b.len())));
            i += 1;
        } else if b[i].is_ascii_digit() {
            let st = i;
            while i < b.len() && b[i].is_ascii_digit() {
                i += 1;
            }
            nums.push((st, i));
        } else {
            i += 1;
        }
    }
    // string literals used as keys are followed by ':' - only values take part
    let strs: Vec<(usize, usize)> = strs.into_iter().filter(|&(_, e)| b.get(e + 1) != Some(&b':') && text.is_char_boundary(e)).collect();
    let mut out = vec![];
    let mut shift = |kind: &str, x: (usize, usize), y: (usize, usize), out: &mut Vec<(String, String)>| {
        // x and y are disjoint spans; k characters leave the end of x for the front of y, or the front of y for the end of x
        let (xs, ys) = (&text[x.0..x.1], &text[y.0..y.1]);
        let mut build = |nx: String, ny: String, what: String| {
            let (first, second, nf, ns) = if x.0 < y.0 { (x, y, &nx, &ny) } else { (y, x, &ny, &nx) };
            let t = format!("{}{}{}{}{}", &text[..first.0], nf, &text[first.1..second.0], ns, &text[second.1..]);
            out.push((what, t));
        };
        if !xs.is_ascii() || !ys.is_ascii() {
            return;
        }
        for k in 1..xs.len().min(4) {
            build(xs[..xs.len() - k].to_string(), format!("{}{}", &xs[xs.len() - k..], ys), format!("boundary shift: the last {k} character(s) of the {kind} literal at {} moved to the front of the one at {}", x.0, y.0));
        }
        for k in 1..=ys.len().min(4) {
            if k == ys.len() && kind == "numeric" {
                // the second number would vanish: it becomes 0 instead
                build(format!("{xs}{ys}"), "0".to_string(), format!("boundary shift: the {kind} literal at {} appended to the one at {} and replaced by 0", y.0, x.0));
                continue;
            }
            if k == ys.len() {
                continue;
            }
            build(format!("{}{}", xs, &ys[..k]), ys[k..].to_string(), format!("boundary shift: the first {k} character(s) of the {kind} literal at {} moved to the end of the one at {}", y.0, x.0));
        }
    };
    for (kind, spans) in [("numeric", &nums), ("string", &strs)] {
        for a in 0..spans.len() {
            if all_pairs && kind == "numeric" {
                for c in 0..spans.len() {
                    if a != c {
                        shift(kind, spans[a], spans[c], &mut out);
                    }
                }
            } else if a + 1 < spans.len() {
                shift(kind, spans[a], spans[a + 1], &mut out);
            }
        }
    }
    out
}

pub fn run_c09(tier: &str) -> i32 {
    let full = tier != "quick";
    let mut report = Report::new("C09", tier, "fault_enumeration");
    // (level price, orders, large level, listing permutation used when the package is written)
    let mut seeds: Vec<(u64, Vec<Ord_>, bool, usize)> = c09_seed_levels(full)
        .into_iter()
        .enumerate()
        .map(|(k, l)| (LEVEL_PRICE + k as u64, l, false, 0))
        .collect();
    // orders sharing a timestamp: the package may list them in any sequence (map order); every sequence of
    // three / four tied orders (the fourth is the ULID twin of #1) is written once. Structural faults only.
    {
        let p = LEVEL_PRICE;
        let three = vec![mk_ts(Tmpl::S10, 1, p, 7), mk_ts(Tmpl::S5, 2, p, 7), mk_ts(Tmpl::IC34, 3, p, 7)];
        for k in 0..6 {
            seeds.push((p, three.clone(), false, k));
        }
        let mut four = vec![mk_ts(Tmpl::S3, 2, p, 7), mk_ts(Tmpl::S10, 1, p, 7), mk_ts(Tmpl::S5, 4, p, 7), mk_ts(Tmpl::RS36, 3, p, 9)];
        four.push(mk_ts(Tmpl::S5, 5, p, 9));
        for k in 0..if full { 120 } else { 24 } {
            seeds.push((p + 1, four.clone(), false, k * if full { 1 } else { 5 }));
        }
    }
    // levels whose price and aggregates have several digits none of which is 0 (digit migration between them yields valid numbers)
    for (j, p) in [1253u64, 987654, 31].into_iter().enumerate() {
        seeds.push((p, vec![mk_ts(Tmpl::S10, 1, p, 1617), mk_ts(Tmpl::IC34, 2, p, 2718), mk_ts(Tmpl::S5, 3, p, 1617 + j as u64)], false, 0));
    }
    // large levels: the serialized package is longer than typical buffer sizes (4 KiB, 8 KiB); the level price
    // takes every decimal length so that block boundaries fall on every alignment of the repeating order records
    let mut p10: u64 = 1;
    for j in 0..20 {
        let n = if j % 5 == 4 { 70 } else { 40 };
        seeds.push((p10, (0..n).map(|i| crate::seq_level::bulk_order(i, LEVEL_PRICE)).collect(), true, 0));
        p10 = p10.saturating_mul(10).max(1);
        if j == 18 {
            p10 = u64::MAX;
        }
    }
    let nthreads = crate::seq_checks::threads();
    let next = AtomicUsize::new(0);
    struct Acc {
        evals: u64,
        accepted_equal: u64,
        rejected: u64,
        changed: u64,
        failures: Vec<String>,
        samples: Vec<Value>,
    }
    let start = Instant::now();
    let cap = Duration::from_secs_f64(
        std::env::var("VERIF_WALL_CAP_S").ok().and_then(|s| s.parse().ok()).unwrap_or(if full { 1500.0 } else { 45.0 }),
    );
    let capped = AtomicBool::new(false);
    let accs: Vec<Acc> = std::thread::scope(|sc| {
        let mut hs = vec![];
        for _ in 0..nthreads {
            hs.push(sc.spawn(|| {
                let mut a = Acc { evals: 0, accepted_equal: 0, rejected: 0, changed: 0, failures: vec![], samples: vec![] };
                loop {
                    let k = next.fetch_add(1, Ordering::Relaxed);
                    if k >= seeds.len() {
                        break;
                    }
                    if start.elapsed() > cap {
                        capped.store(true, Ordering::Relaxed);
                        break;
                    }
                    let (seed_price, seed_orders, big, perm) = (seeds[k].0, &seeds[k].1, seeds[k].2, seeds[k].3);
                    let light = seed_orders.len() >= 2 && rec(&seed_orders[0]).ts == 7;
                    let level = PriceLevel::new(seed_price);
                    for o in seed_orders {
                        level.add_order(*o);
                    }
                    pricelevel::verif_hooks::set_listing_permutation(Some(perm));
                    let Ok(text) = level.snapshot_to_json() else {
                        a.failures.push("C09 snapshot_to_json failed on a valid level".into());
                        continue;
                    };
                    SKIP_DRAIN.with(|s| s.set(false));
                    let pristine = match PriceLevel::from_snapshot_json(&text) {
                        Ok(l) => {
                            let k = restore_key(&l);
                            if k.6.remaining == u64::MAX && k.6.fills.is_empty() {
                                SKIP_DRAIN.with(|s| s.set(true));
                            }
                            k
                        }
                        Err(e) => {
                            a.failures.push(format!("C09 an untouched package is rejected: {e}; {text}"));
                            continue;
                        }
                    };
                    if a.samples.len() < 1 {
                        a.samples.push(json!({"seed_package": text}));
                    }
                    // the untouched package: the restored level queues the orders in the sequence the package lists
                    // (the sequence that was checksummed) - seen through the first visit of each maker by a draining match
                    {
                        a.evals += 1;
                        let listed: Vec<(u128, u64)> = serde_json::from_str::<Value>(&text)
                            .ok()
                            .and_then(|v| v["snapshot"]["orders"].as_array().cloned())
                            .unwrap_or_default()
                            .iter()
                            .filter_map(|o| serde_json::from_value::<Ord_>(o.clone()).ok())
                            .map(|o| (rec(&o).id, o_vis(&o)))
                            .collect();
                        let n_listed = listed.len();
                        // an order that displays nothing gives nothing at its first visit: only the others are compared
                        let listed: Vec<u128> = listed.into_iter().filter(|x| x.1 > 0).map(|x| x.0).collect();
                        let mut visited: Vec<u128> = vec![];
                        for (mk, _) in &pristine.6.fills {
                            if !visited.contains(mk) && listed.contains(mk) {
                                visited.push(*mk);
                            }
                        }
                        let expect: Vec<u128> = listed.iter().copied().filter(|i| visited.contains(i)).collect();
                        if n_listed != seed_orders.len() {
                            a.failures.push(format!("C09 an untouched package lists {} orders, the level held {}: {text}", n_listed, seed_orders.len()));
                        } else if visited != expect {
                            a.failures.push(format!(
                                "C09 untouched package restores a different order sequence: the package lists the orders as {expect:?} but a draining match on the restored level visits them as {visited:?}; input {text}"));
                        } else {
                            a.accepted_equal += 1;
                        }
                    }
                    let mut judge = |a: &mut Acc, what: &str, input: &str, must_fail: bool| {
                        a.evals += 1;
                        let r = std::panic::catch_unwind(|| PriceLevel::from_snapshot_json(input));
                        match r {
                            Err(_) => a.failures.push(format!("C09 restore panicked on {what}: {input}")),
                            Ok(Err(_)) => a.rejected += 1,
                            Ok(Ok(l)) => {
                                let got = restore_key(&l);
                                if must_fail {
                                    if a.failures.len() < 20 {
                                        a.failures.push(format!("C09 {what} was accepted: {input}"));
                                    }
                                } else if got != pristine {
                                    if a.failures.len() < 20 {
                                        a.failures.push(format!(
                                            "C09 {what} was accepted and restores different content: snapshotted (price {}, vis {}, hid {}, count {}, drain {}) / restored (price {}, vis {}, hid {}, count {}, drain {}); input {input}",
                                            pristine.0, pristine.1, pristine.2, pristine.3, pristine.6.describe(),
                                            got.0, got.1, got.2, got.3, got.6.describe()));
                                    }
                                } else {
                                    a.accepted_equal += 1;
                                }
                            }
                        }
                    };
                    // character-level faults at every offset
                    // large seeds: a reduced character alphabet (every offset is still visited); thorough runs the full one on three of them
                    let printable: Vec<String> = if big && !(full && k % 7 == 0) {
                        ["0", "1", "9", "a", "f", "\"", ","].iter().map(|s| s.to_string()).collect()
                    } else {
                        (0x20u8..0x7f).map(|b| (b as char).to_string()).chain(["é".to_string(), "€".to_string()]).collect()
                    };
                    let alpha: Vec<&str> = printable.iter().map(|s| s.as_str()).collect();
                    let idx: Vec<usize> = text.char_indices().map(|(i, _)| i).chain([text.len()]).collect();
                    let n = if light { 0 } else { idx.len() - 1 };
                    for c in 0..n {
                        judge(&mut a, &format!("torn write: prefix of {c} characters"), &text[..idx[c]], true);
                    }
                    for c in 0..n {
                        judge(&mut a, &format!("deletion at {c}"), &format!("{}{}", &text[..idx[c]], &text[idx[c + 1]..]), false);
                        for x in &alpha {
                            if text[idx[c]..idx[c + 1]] == **x {
                                continue;
                            }
                            judge(&mut a, &format!("substitution at {c}"), &format!("{}{}{}", &text[..idx[c]], x, &text[idx[c + 1]..]), false);
                        }
                    }
                    for c in 0..=n {
                        if light {
                            break;
                        }
                        for x in &alpha {
                            judge(&mut a, &format!("insertion at {c}"), &format!("{}{}{}", &text[..idx[c]], x, &text[idx[c]..]), false);
                        }
                    }
                    // structural faults
                    let pkg: Value = serde_json::from_str(&text).unwrap_or(Value::Null);
                    let structural = structural_edits(&pkg);
                    for (name, p) in &structural {
                        a.changed += 1;
                        let must_fail = name.starts_with("version");
                        judge(&mut a, name, &p.to_string(), must_fail);
                    }
                    // field-boundary shifts: characters migrate between two literals (a pair of cooperating text faults)
                    for (name, t) in boundary_shifts(&text, !big) {
                        a.changed += 1;
                        judge(&mut a, &name, &t, false);
                    }
                    // pairs: structural x structural (content edit followed by a second edit, incl. checksum edits)
                    if (full || k % 9 == 0) && !big {
                        for (n1, p1) in structural.iter() {
                            if n1.starts_with("checksum") || n1.starts_with("version") {
                                continue;
                            }
                            for (n2, p2) in structural_edits(p1).into_iter().filter(|(n, _)| full || n.starts_with("checksum") || n.starts_with("number at snapshot.visible") || n.starts_with("number at snapshot.order_count") || n.starts_with("drop")) {
                                judge(&mut a, &format!("{n1} + {n2}"), &p2.to_string(), false);
                            }
                        }
                    }
                    // pairs of single-character edits for the smallest seeds
                    if full && text.len() < 330 {
                        pair_edits(&text, &["0", "1", "\"", ","], &mut |x| judge(&mut a, "pair of character edits", &x, false));
                    }
                    // in-memory faults on the package value
                    if let Ok(pk) = PriceLevelSnapshotPackage::from_json(&text) {
                        let mut variants: Vec<(String, PriceLevelSnapshotPackage)> = vec![];
                        for v in [0u32, 2, u32::MAX] {
                            let mut p = pk.clone();
                            p.version = v;
                            variants.push((format!("in-memory version {v}"), p));
                        }
                        let mut p = pk.clone();
                        p.snapshot.price = p.snapshot.price.wrapping_add(1);
                        variants.push(("in-memory price+1".into(), p));
                        let mut p = pk.clone();
                        p.snapshot.visible_quantity = p.snapshot.visible_quantity.wrapping_add(1);
                        variants.push(("in-memory visible+1".into(), p));
                        let mut p = pk.clone();
                        p.snapshot.hidden_quantity = p.snapshot.hidden_quantity.wrapping_add(1);
                        variants.push(("in-memory hidden+1".into(), p));
                        let mut p = pk.clone();
                        p.snapshot.order_count = p.snapshot.order_count.wrapping_add(1);
                        variants.push(("in-memory count+1".into(), p));
                        let mut p = pk.clone();
                        p.checksum = p.checksum.to_uppercase();
                        variants.push(("in-memory checksum uppercased".into(), p));
                        for i in 0..pk.snapshot.orders.len() {
                            let mut p = pk.clone();
                            p.snapshot.orders.remove(i);
                            variants.push((format!("in-memory drop order {i}"), p));
                            let mut p = pk.clone();
                            let o = *p.snapshot.orders[i];
                            p.snapshot.orders[i] = Arc::new(with_vis(&o, o_vis(&o).wrapping_add(1)));
                            variants.push((format!("in-memory order {i} quantity+1"), p));
                            let mut p = pk.clone();
                            p.snapshot.orders[i] = Arc::new(crate::seq_level::set_id_ts(&o, o_id(&o), rec(&o).ts.wrapping_add(1)));
                            variants.push((format!("in-memory order {i} timestamp+1"), p));
                            for j in i + 1..pk.snapshot.orders.len() {
                                let mut p = pk.clone();
                                p.snapshot.orders.swap(i, j);
                                variants.push((format!("in-memory swap orders {i},{j}"), p));
                            }
                        }
                        for (name, p) in variants {
                            a.evals += 1;
                            let must_fail = name.contains("version");
                            match std::panic::catch_unwind(move || PriceLevel::from_snapshot_package(p)) {
                                Err(_) => a.failures.push(format!("C09 from_snapshot_package panicked on {name}")),
                                Ok(Err(_)) => a.rejected += 1,
                                Ok(Ok(l)) => {
                                    let got = restore_key(&l);
                                    if must_fail || got != pristine {
                                        if a.failures.len() < 20 {
                                            a.failures.push(format!("C09 {name} was accepted by from_snapshot_package (seed {text})"));
                                        }
                                    } else {
                                        a.accepted_equal += 1;
                                    }
                                }
                            }
                        }
                    }
                }
                a
            }));
        }
        hs.into_iter().map(|h| h.join().unwrap()).collect()
    });
    let mut evals = 0;
    let mut rejected = 0;
    let mut accepted = 0;
    let mut samples = vec![];
    let mut msgs = std::collections::BTreeSet::new();
    for a in accs {
        evals += a.evals;
        rejected += a.rejected;
        accepted += a.accepted_equal;
        samples.extend(a.samples);
        for f in a.failures {
            // one message per fault kind
            let kind: String = f.split(':').next().unwrap_or("").chars().filter(|c| !c.is_ascii_digit()).collect();
            if msgs.insert(kind) {
                // the mutated input is the tail of the message (after "input " / "accepted: " / "on <what>: ")
                let input = f
                    .rsplit_once("; input ")
                    .map(|x| x.1)
                    .or_else(|| f.split_once(" was accepted: ").map(|x| x.1))
                    .unwrap_or("")
                    .to_string();
                report.violation(f.clone(), json!({"engine": "faults", "property": "C09", "case": f, "input": input}));
            }
        }
    }
    samples.truncate(3);
    report.cov("evaluations", json!(evals));
    report.cov("distinct_nontrivial", json!(rejected));
    report.cov("rejected", json!(rejected));
    report.cov("accepted_with_identical_content", json!(accepted));
    report.cov("seed_levels", json!(seeds.len()));
    report.cov("rule", json!(format!("{} seed levels (every single-order level over 14 templates, {} two-order levels, boundary-value books with both id formats); faults on the package JSON: every truncation point, every deletion, every substitution and insertion with each of 95 printable ASCII characters and two multi-byte characters at every offset; structural edits (drop / duplicate / swap orders, delete any field, rewrite every number and enum string, version, checksum variants); pairs of structural edits{}; field-boundary shifts (1-4 characters migrating between two numeric literals - every ordered pair of them on the small seeds, consecutive ones on the large seeds - or between consecutive string values); in-memory edits of the package value. Oracle: restore returns Err, or the restored level has exactly the snapshotted content (price, aggregates, orders, re-snapshot text, maker sequence of a draining match); prefixes and wrong versions must be Err. distinct_nontrivial = faults that were rejected", seeds.len(), if full { "all" } else { "a seventh of the" }, if full { "; pairs of character edits for the smallest seeds" } else { " (sub-sampled seeds in the quick tier)" })));
    report.cov("samples", json!(samples));
    report.cov("exhaustive", json!(!capped.load(Ordering::Relaxed)));
    if capped.load(Ordering::Relaxed) {
        report.cov("capped", json!("wall cap reached before all seeds were processed"));
    }
    report.assumptions = vec!["every mutated input is executed (no assumption about SHA-256)".into(), "faults are enumerated on the listed seed levels".into()];
    report.finish()
}


/// parent of the C18 worker process: passes the worker's verdict through; if the worker dies abnormally
/// (abort, stack overflow, killed) the inputs that were being parsed are re-tried one per process to pin the culprit
pub fn run_c18_isolated(tier: &str) -> i32 {
    let exe = std::env::current_exe().unwrap_or_default();
    let _ = std::fs::remove_file(slots_path());
    let status = std::process::Command::new(&exe).args(["C18", tier, "--worker"]).status();
    let code = status.as_ref().ok().and_then(|s| s.code());
    if let Some(c) = code {
        if (0..=2).contains(&c) {
            return c;
        }
    }
    // abnormal end
    let parsers: Vec<Parser> = text_parsers().into_iter().chain(json_parsers()).collect();
    let mut report = Report::new("C18", tier, "exploration");
    let cands = Slots::read_file();
    let mut culprit = None;
    for (pi, bytes) in &cands {
        let hex: String = bytes.iter().map(|b| format!("{b:02x}")).collect();
        let st = std::process::Command::new(&exe).args(["C18-one", &pi.to_string(), &hex]).status();
        let ok = st.as_ref().ok().and_then(|s| s.code()).map(|c| c == 0).unwrap_or(false);
        if !ok {
            culprit = Some((*pi, String::from_utf8_lossy(bytes).to_string(), format!("{st:?}")));
            break;
        }
    }
    let name = |pi: u16| parsers.get(pi as usize).map(|p| p.0).unwrap_or("?");
    match culprit {
        Some((pi, input, st)) => report.violation(
            format!("C18 {}: parsing terminated the process ({st}) - abort / stack overflow instead of an error - on input {input:?}", name(pi)),
            json!({"engine": "faults", "property": "C18", "parser": name(pi), "input": input}),
        ),
        None => report.violation(
            format!("C18 the parsing process terminated abnormally ({status:?}); inputs in flight: {:?}",
                cands.iter().map(|(pi, b)| (name(*pi), String::from_utf8_lossy(b).chars().take(80).collect::<String>())).collect::<Vec<_>>()),
            json!({"engine": "faults", "property": "C18", "status": format!("{status:?}")}),
        ),
    }
    report.cov("evaluations", json!(cands.len().max(1)));
    report.cov("distinct_nontrivial", json!(2));
    report.cov("rule", json!("the worker process died; the inputs in flight were re-tried one per process"));
    report.cov("samples", json!(cands.iter().take(3).map(|(pi, b)| json!({"parser": name(*pi), "input": String::from_utf8_lossy(b)})).collect::<Vec<_>>()));
    report.finish()
}

/// `plverif C18-one <parser index> <hex input>`: parse one input, exit 0 unless the process dies
pub fn run_c18_one(parser: &str, hex: &str) -> i32 {
    let parsers: Vec<Parser> = text_parsers().into_iter().chain(json_parsers()).collect();
    let pi: usize = parser.parse().unwrap_or(0);
    let bytes: Vec<u8> = (0..hex.len() / 2).filter_map(|i| u8::from_str_radix(&hex[2 * i..2 * i + 2], 16).ok()).collect();
    let input = String::from_utf8_lossy(&bytes).to_string();
    if let Some(p) = parsers.get(pi) {
        let f = p.1;
        let _ = std::panic::catch_unwind(|| f(&input));
    }
    0
}


/// `plverif replay` for artefacts of engine G: the recorded input is fed to the recorded entry point twice
pub fn replay(doc: &Value) -> i32 {
    let rp = &doc["replay"];
    let prop = rp["property"].as_str().unwrap_or("");
    println!("recorded finding: {}", doc["message"].as_str().unwrap_or(""));
    match prop {
        "C18" => {
            let parsers: Vec<Parser> = text_parsers().into_iter().chain(json_parsers()).collect();
            let name = rp["parser"].as_str().unwrap_or("");
            let input = rp["input"].as_str().unwrap_or("").to_string();
            let Some(p) = parsers.iter().find(|p| p.0 == name) else {
                println!("replay: unknown parser {name}");
                return 2;
            };
            let f = p.1;
            let run = || match std::panic::catch_unwind(|| f(&input)) {
                Ok(true) => "Ok".to_string(),
                Ok(false) => "Err".to_string(),
                Err(_) => "PANIC".to_string(),
            };
            let (a, b) = (run(), run());
            println!("parser {name} on {input:?}: first run {a}, second run {b}");
            if a != b {
                println!("MACHINERY-ERROR: replay diverged");
                return 2;
            }
            if a == "PANIC" { 1 } else { 0 }
        }
        "C09" => {
            let input = rp["input"].as_str().unwrap_or("").to_string();
            if input.is_empty() {
                println!("replay: this C09 finding carries no input text (in-memory fault); re-run ./check C09 quick");
                return 0;
            }
            let run = || match std::panic::catch_unwind(|| PriceLevel::from_snapshot_json(&input)) {
                Ok(Ok(l)) => {
                    let shown = format!("{l}");
                    let g = UuidGenerator::new(crate::seq_level::NS);
                    let d = DRAIN_REC.with(|r| r.with_budget(20_000, || match_obs(&l.match_order(crate::seq_level::DRAIN_QTY, oid(999), &g))));
                    format!("accepted: {shown}; a draining match on the restored level: {}", d.map(|d| d.describe()).unwrap_or_else(|_| "did not return".into()))
                }
                Ok(Err(e)) => format!("rejected: {e}"),
                Err(_) => "PANIC".to_string(),
            };
            let (a, b) = (run(), run());
            println!("from_snapshot_json: {a}");
            if a != b {
                println!("MACHINERY-ERROR: replay diverged");
                return 2;
            }
            if a.starts_with("rejected") { 0 } else { 1 }
        }
        _ => {
            println!("replay: the grids of {prop} are enumerated deterministically; re-run ./check {prop} quick to reproduce");
            0
        }
    }
}
