//! Engine G: bounded-exhaustive input grids (C05, C16, C17, the MatchResult builder part of C02).
//! Plain nested enumeration, nothing is sampled.

use crate::common::*;
use crate::model::*;
use pricelevel::{
    MatchResult, OrderId, OrderQueue, OrderType, OrderUpdate, PegReferenceType, PriceLevel,
    PriceLevelSnapshot, PriceLevelSnapshotPackage, PriceLevelStatistics, Side, TimeInForce,
    Transaction, TransactionList, UuidGenerator,
};
use serde::Serialize;
use serde::de::DeserializeOwned;
use serde_json::{Value, json};
use std::fmt::{Debug, Display};
use std::str::FromStr;
use std::sync::Arc;
use ulid::Ulid;
use uuid::Uuid;

pub const M: u64 = u64::MAX;
pub const BIG: u64 = (1u64 << 53) + 1;

// ---------------------------------------------------------------------------------------------
// value generators

pub fn ids() -> Vec<OrderId> {
    vec![
        OrderId::from_u64(0),
        OrderId::from_u64(1),
        OrderId::from_u64(M),
        OrderId::Uuid(Uuid::from_u128(u128::MAX)),
        OrderId::Uuid(Uuid::from_u128(0x550e8400_e29b_41d4_a716_446655440000)),
        OrderId::Ulid(Ulid(0)),
        OrderId::Ulid(Ulid(u128::MAX)),
        OrderId::Ulid(Ulid(0x0123_4567_89ab_cdef_0123_4567_89ab_cdef)),
    ]
}

pub fn few_ids() -> Vec<OrderId> {
    vec![
        OrderId::from_u64(1),
        OrderId::Uuid(Uuid::from_u128(u128::MAX)),
        OrderId::Ulid(Ulid(0x0123_4567_89ab_cdef_0123_4567_89ab_cdef)),
    ]
}

pub fn tifs() -> Vec<TimeInForce> {
    vec![
        TimeInForce::Gtc,
        TimeInForce::Ioc,
        TimeInForce::Fok,
        TimeInForce::Day,
        TimeInForce::Gtd(0),
        TimeInForce::Gtd(10_000),
        TimeInForce::Gtd(1 << 63),
        TimeInForce::Gtd(BIG),
        TimeInForce::Gtd(M),
    ]
}

pub fn pegs() -> Vec<PegReferenceType> {
    vec![
        PegReferenceType::BestBid,
        PegReferenceType::BestAsk,
        PegReferenceType::MidPrice,
        PegReferenceType::LastTrade,
    ]
}

pub const SIDES: [Side; 2] = [Side::Buy, Side::Sell];

/// every order variant over the boundary grid
pub fn orders(full: bool) -> Vec<Ord_> {
    let qs: Vec<u64> = if full {
        vec![0, 1, 10_000, (1 << 32) - 1, 1 << 63, BIG, M - 1, M]
    } else {
        vec![0, 1, M]
    };
    let prices: Vec<u64> = if full { vec![0, 1, BIG, M - 1, M] } else { vec![0, M] };
    let tss: Vec<u64> = if full { vec![0, BIG, M - 1, M] } else { vec![0, M] };
    let idv = if full { ids() } else { few_ids() };
    let mut out = vec![];
    for id in &idv {
        for price in &prices {
            for side in SIDES {
                for timestamp in &tss {
                    for time_in_force in tifs() {
                        let (id, price, timestamp) = (*id, *price, *timestamp);
                        for q in &qs {
                            let quantity = *q;
                            out.push(OrderType::Standard {
                                id,
                                price,
                                quantity,
                                side,
                                timestamp,
                                time_in_force,
                                extra_fields: (),
                            });
                            out.push(OrderType::PostOnly {
                                id,
                                price,
                                quantity,
                                side,
                                timestamp,
                                time_in_force,
                                extra_fields: (),
                            });
                            out.push(OrderType::MarketToLimit {
                                id,
                                price,
                                quantity,
                                side,
                                timestamp,
                                time_in_force,
                                extra_fields: (),
                            });
                            for (a, b) in [(0u64, 0u64), (1, M), (M, BIG)] {
                                out.push(OrderType::TrailingStop {
                                    id,
                                    price,
                                    quantity,
                                    side,
                                    timestamp,
                                    time_in_force,
                                    trail_amount: a,
                                    last_reference_price: b,
                                    extra_fields: (),
                                });
                            }
                            for off in [i64::MIN, -1, 0, 1, i64::MAX] {
                                for reference_price_type in pegs() {
                                    out.push(OrderType::PeggedOrder {
                                        id,
                                        price,
                                        quantity,
                                        side,
                                        timestamp,
                                        time_in_force,
                                        reference_price_offset: off,
                                        reference_price_type,
                                        extra_fields: (),
                                    });
                                }
                            }
                            for h in &qs {
                                out.push(OrderType::IcebergOrder {
                                    id,
                                    price,
                                    visible_quantity: quantity,
                                    hidden_quantity: *h,
                                    side,
                                    timestamp,
                                    time_in_force,
                                    extra_fields: (),
                                });
                                for thr in [0, M] {
                                    for amt in [None, Some(0), Some(BIG), Some(M)] {
                                        for auto in [true, false] {
                                            out.push(OrderType::ReserveOrder {
                                                id,
                                                price,
                                                visible_quantity: quantity,
                                                hidden_quantity: *h,
                                                side,
                                                timestamp,
                                                time_in_force,
                                                replenish_threshold: thr,
                                                replenish_amount: amt,
                                                auto_replenish: auto,
                                                extra_fields: (),
                                            });
                                        }
                                    }
                                }
                            }
                        }
                    }
                }
            }
        }
    }
    out
}

pub fn updates() -> Vec<OrderUpdate> {
    let mut out = vec![];
    let vals = [0, 1, BIG, M - 1, M];
    for order_id in ids() {
        out.push(OrderUpdate::Cancel { order_id });
        for a in vals {
            out.push(OrderUpdate::UpdatePrice {
                order_id,
                new_price: a,
            });
            out.push(OrderUpdate::UpdateQuantity {
                order_id,
                new_quantity: a,
            });
            for b in vals {
                out.push(OrderUpdate::UpdatePriceAndQuantity {
                    order_id,
                    new_price: a,
                    new_quantity: b,
                });
                for side in SIDES {
                    out.push(OrderUpdate::Replace {
                        order_id,
                        price: a,
                        quantity: b,
                        side,
                    });
                }
            }
        }
    }
    out
}

pub fn transactions(full: bool) -> Vec<Transaction> {
    let mut out = vec![];
    let txids = [
        Uuid::nil(),
        Uuid::from_u128(u128::MAX),
        Uuid::from_u128(0x6ba7b810_9dad_11d1_80b4_00c04fd430c8),
    ];
    let vals: Vec<u64> = if full { vec![0, 1, BIG, M - 1, M] } else { vec![0, M] };
    let idv = if full { ids() } else { few_ids() };
    for transaction_id in txids {
        for taker_order_id in &idv {
            for maker_order_id in &idv {
                for price in &vals {
                    for quantity in &vals {
                        for taker_side in SIDES {
                            for timestamp in &vals {
                                out.push(Transaction {
                                    transaction_id,
                                    taker_order_id: *taker_order_id,
                                    maker_order_id: *maker_order_id,
                                    price: *price,
                                    quantity: *quantity,
                                    taker_side,
                                    timestamp: *timestamp,
                                });
                            }
                        }
                    }
                }
            }
        }
    }
    out
}

pub fn transaction_lists() -> Vec<TransactionList> {
    let t = transactions(false);
    let pick: Vec<Transaction> = t.iter().step_by(t.len() / 7 + 1).copied().collect();
    let mut out = vec![TransactionList::new()];
    for a in &pick {
        out.push(TransactionList::from_vec(vec![*a]));
        for b in &pick {
            out.push(TransactionList::from_vec(vec![*a, *b]));
        }
    }
    for a in pick.iter().take(3) {
        for b in pick.iter().take(3) {
            for c in pick.iter().take(3) {
                out.push(TransactionList::from_vec(vec![*a, *b, *c]));
            }
        }
    }
    out
}

pub fn match_results() -> Vec<MatchResult> {
    let lists = transaction_lists();
    let lists: Vec<&TransactionList> = lists.iter().step_by(5).collect();
    let idv = few_ids();
    let mut fills: Vec<Vec<OrderId>> = vec![vec![]];
    for a in &idv {
        fills.push(vec![*a]);
        for b in &idv {
            fills.push(vec![*a, *b]);
        }
    }
    fills.push(ids());
    let mut out = vec![];
    for order_id in ids() {
        for remaining_quantity in [0, 1, BIG, M - 1, M] {
            for is_complete in [true, false] {
                for transactions in &lists {
                    for filled_order_ids in &fills {
                        out.push(MatchResult {
                            order_id,
                            transactions: (*transactions).clone(),
                            remaining_quantity,
                            is_complete,
                            filled_order_ids: filled_order_ids.clone(),
                        });
                    }
                }
            }
        }
    }
    out
}

/// lists of 0..3 orders with distinct ids, covering every variant and the boundary values
pub fn order_lists() -> Vec<Vec<Ord_>> {
    let all = orders(false);
    let mut by_variant: Vec<Vec<Ord_>> = vec![vec![]; 7];
    for o in &all {
        by_variant[rec(o).kind as usize].push(*o);
    }
    let picks: Vec<Ord_> = by_variant
        .iter()
        .flat_map(|v| {
            let n = v.len();
            [v[0], v[n / 3], v[n / 2], v[n - 1]]
        })
        .collect();
    let mut out: Vec<Vec<Ord_>> = vec![vec![]];
    let idv = ids();
    let with_id = |o: &Ord_, k: usize| crate::seq_level::set_id_ts(o, idv[k % idv.len()], rec(o).ts);
    for (i, a) in picks.iter().enumerate() {
        out.push(vec![with_id(a, i)]);
        for (j, b) in picks.iter().enumerate().skip(i % 3).step_by(3) {
            out.push(vec![with_id(a, 0), with_id(b, 3 + j % 4)]);
        }
    }
    for i in (0..picks.len()).step_by(2) {
        let a = with_id(&picks[i], 1);
        let b = with_id(&picks[(i + 5) % picks.len()], 4);
        let c = with_id(&picks[(i + 11) % picks.len()], 6);
        out.push(vec![a, b, c]);
    }
    // quantities, prices and timestamps that are not exactly representable as f64
    for (q, h) in [(BIG, 0u64), (M - 1, 0), (BIG, BIG + 2), (3, M - 4)] {
        for price in [BIG, M - 1] {
            let a = OrderType::IcebergOrder {
                id: idv[1],
                price,
                visible_quantity: q,
                hidden_quantity: h,
                side: Side::Sell,
                timestamp: BIG + 4,
                time_in_force: TimeInForce::Gtd(M - 1),
                extra_fields: (),
            };
            let b = OrderType::Standard {
                id: idv[6],
                price,
                quantity: 1,
                side: Side::Buy,
                timestamp: M - 1,
                time_in_force: TimeInForce::Day,
                extra_fields: (),
            };
            out.push(vec![a]);
            if q as u128 + h as u128 + 1 <= M as u128 {
                out.push(vec![a, b]);
            }
        }
    }
    // harness templates too (small quantities, ties in timestamps)
    out.push(vec![
        mk(Tmpl::IC23, 1, LEVEL_PRICE),
        mk(Tmpl::RSa, 2, LEVEL_PRICE),
        mk(Tmpl::PG5, 3, LEVEL_PRICE),
    ]);
    out.push(vec![mk(Tmpl::RSd, 2, LEVEL_PRICE), mk(Tmpl::TS5, 3, LEVEL_PRICE)]);
    out
}

/// level prices such that a level holding the list is still "sums fit in 64 bits"
fn level_for(list: &[Ord_], price: u64) -> Option<PriceLevel> {
    let sv: u128 = list.iter().map(|o| o_vis(o) as u128).sum();
    let sh: u128 = list.iter().map(|o| o_hid(o) as u128).sum();
    if sv + sh > M as u128 {
        return None;
    }
    let l = PriceLevel::new(price);
    for o in list {
        l.add_order(*o);
    }
    Some(l)
}

// ---------------------------------------------------------------------------------------------
// round-trip helpers

pub struct Tally {
    pub evaluations: u64,
    pub nontrivial: u64,
    pub failures: Vec<String>,
    pub samples: Vec<Value>,
    pub per_type: Vec<(String, u64)>,
}

impl Tally {
    pub fn new() -> Self {
        Tally {
            evaluations: 0,
            nontrivial: 0,
            failures: vec![],
            samples: vec![],
            per_type: vec![],
        }
    }
    pub fn fail(&mut self, m: String) {
        if self.failures.len() < 40 {
            self.failures.push(m);
        }
    }
}

fn guarded<R>(f: impl FnOnce() -> R) -> Result<R, String> {
    std::panic::catch_unwind(std::panic::AssertUnwindSafe(f)).map_err(|p| {
        if let Some(s) = p.downcast_ref::<String>() {
            s.clone()
        } else if let Some(s) = p.downcast_ref::<&str>() {
            s.to_string()
        } else {
            "panic".into()
        }
    })
}

fn text_trip<T: Display + FromStr>(
    t: &mut Tally,
    ty: &str,
    v: &T,
    eq: &dyn Fn(&T, &T) -> bool,
    show: &dyn Fn(&T) -> String,
) where
    <T as FromStr>::Err: Debug,
{
    t.evaluations += 1;
    let r = guarded(|| {
        let s = v.to_string();
        (s.clone(), T::from_str(&s))
    });
    match r {
        Err(p) => t.fail(format!("C16 {ty}: panic during print/parse of {}: {p}", show(v))),
        Ok((s, Err(e))) => t.fail(format!("C16 {ty}: printed text does not parse back: {e:?}; text `{s}`")),
        Ok((s, Ok(back))) => {
            if !eq(v, &back) {
                t.fail(format!(
                    "C16 {ty}: parse(print(v)) != v: v = {} / text `{s}` / parsed = {}",
                    show(v),
                    show(&back)
                ));
            }
        }
    }
}

fn json_trip<T: Serialize + DeserializeOwned>(
    t: &mut Tally,
    ty: &str,
    v: &T,
    eq: &dyn Fn(&T, &T) -> bool,
    show: &dyn Fn(&T) -> String,
) {
    t.evaluations += 1;
    let r = guarded(|| {
        let s = serde_json::to_string(v);
        match s {
            Ok(s) => {
                let b = serde_json::from_str::<T>(&s);
                (s, Some(b))
            }
            Err(e) => (e.to_string(), None),
        }
    });
    match r {
        Err(p) => t.fail(format!("C17 {ty}: panic during JSON trip of {}: {p}", show(v))),
        Ok((e, None)) => t.fail(format!("C17 {ty}: serialization failed: {e} for {}", show(v))),
        Ok((s, Some(Err(e)))) => t.fail(format!("C17 {ty}: own JSON does not deserialize: {e}; json `{s}`")),
        Ok((s, Some(Ok(back)))) => {
            if !eq(v, &back) {
                t.fail(format!(
                    "C17 {ty}: from_json(to_json(v)) != v: v = {} / json `{s}` / back = {}",
                    show(v),
                    show(&back)
                ));
            }
            // the same JSON through the other deserialization paths (owned strings instead of borrowed slices):
            // a generic JSON value, and a byte reader
            let r2 = guarded(|| {
                let via_value = serde_json::to_value(v).and_then(serde_json::from_value::<T>);
                let via_reader = serde_json::from_reader::<_, T>(s.as_bytes());
                (via_value, via_reader)
            });
            match r2 {
                Err(p) => t.fail(format!("C17 {ty}: panic in the value / reader path for {}: {p}", show(v))),
                Ok((a, b)) => {
                    match a {
                        Ok(x) if eq(v, &x) => {}
                        Ok(x) => t.fail(format!("C17 {ty}: from_value(to_value(v)) != v: {} vs {}", show(v), show(&x))),
                        Err(e) => t.fail(format!("C17 {ty}: from_value(to_value(v)) fails: {e}; json `{s}`")),
                    }
                    match b {
                        Ok(x) if eq(v, &x) => {}
                        Ok(x) => t.fail(format!("C17 {ty}: from_reader(to_json(v)) != v: {} vs {}", show(v), show(&x))),
                        Err(e) => t.fail(format!("C17 {ty}: from_reader(to_json(v)) fails: {e}; json `{s}`")),
                    }
                }
            }
        }
    }
}

fn dbg<T: Debug>(v: &T) -> String {
    format!("{v:?}")
}

fn level_content(l: &PriceLevel) -> (u64, u64, u64, usize, Vec<Rec>) {
    let o = observe(l);
    (
        o.price,
        o.vis,
        o.hid,
        o.count,
        o.orders.iter().map(rec).collect(),
    )
}

fn queue_content(q: &OrderQueue) -> Vec<Rec> {
    let mut v: Vec<Rec> = q.to_vec().iter().map(|o| rec(o)).collect();
    v.sort();
    v
}

fn stats_values() -> Vec<PriceLevelStatistics> {
    let mut out = vec![];
    let vals = [0u64, 1, BIG, M - 1, M];
    for a in vals {
        for b in vals {
            for c in [0u64, BIG, M] {
                let text = format!(
                    "PriceLevelStatistics:orders_added={a};orders_removed={b};orders_executed={c};quantity_executed={b};value_executed={a};last_execution_time={c};first_arrival_time={a};sum_waiting_time={b}"
                );
                if let Ok(s) = PriceLevelStatistics::from_str(&text) {
                    out.push(s);
                }
            }
        }
    }
    out
}

fn stats_fields(s: &PriceLevelStatistics) -> String {
    // Display prints every field
    s.to_string()
}

pub fn sample<T>(t: &mut Tally, ty: &str, vs: &[T], show: &dyn Fn(&T) -> String) {
    for i in sample_indices(vs.len(), 1) {
        t.samples.push(json!({"type": ty, "value": show(&vs[i])}));
    }
}

pub fn run_c16(tier: &str) -> i32 {
    let full = true;
    let mut report = Report::new("C16", tier, "exploration");
    let mut t = Tally::new();
    let _rec = crate::rec::Recorder::install(); // owns the listing order
    macro_rules! ty {
        ($name:expr, $vals:expr, $eq:expr, $show:expr) => {{
            let vals = $vals;
            let before = t.evaluations;
            for v in vals.iter() {
                text_trip(&mut t, $name, v, &$eq, &$show);
            }
            t.per_type.push(($name.to_string(), t.evaluations - before));
            sample(&mut t, $name, &vals, &$show);
        }};
    }
    ty!("OrderId", ids(), |a: &OrderId, b: &OrderId| a == b, dbg::<OrderId>);
    ty!("Side", SIDES.to_vec(), |a: &Side, b: &Side| a == b, dbg::<Side>);
    ty!("TimeInForce", tifs(), |a: &TimeInForce, b: &TimeInForce| a == b, dbg::<TimeInForce>);
    ty!("PegReferenceType", pegs(), |a: &PegReferenceType, b: &PegReferenceType| a == b, dbg::<PegReferenceType>);
    ty!("OrderType", orders(full), |a: &Ord_, b: &Ord_| rec(a) == rec(b) && a == b, dbg::<Ord_>);
    ty!("OrderUpdate", updates(), |a: &OrderUpdate, b: &OrderUpdate| dbg(a) == dbg(b), dbg::<OrderUpdate>);
    ty!("Transaction", transactions(full), |a: &Transaction, b: &Transaction| a == b, dbg::<Transaction>);
    ty!("TransactionList", transaction_lists(), |a: &TransactionList, b: &TransactionList| a == b, dbg::<TransactionList>);
    ty!("MatchResult", match_results(), |a: &MatchResult, b: &MatchResult| dbg(a) == dbg(b), dbg::<MatchResult>);
    // levels, queues, snapshot summaries
    let lists = order_lists();
    let mut levels = vec![];
    let mut queues = vec![];
    let mut snaps = vec![];
    for l in &lists {
        for price in [0, LEVEL_PRICE, BIG, M - 1, M] {
            if let Some(level) = level_for(l, price) {
                snaps.push(level.snapshot());
                levels.push(level);
            }
        }
        queues.push(OrderQueue::from_vec(l.iter().map(|o| Arc::new(*o)).collect()));
    }
    ty!("PriceLevel", levels, |a: &PriceLevel, b: &PriceLevel| level_content(a) == level_content(b), |l: &PriceLevel| l.to_string());
    ty!("OrderQueue", queues, |a: &OrderQueue, b: &OrderQueue| queue_content(a) == queue_content(b), |q: &OrderQueue| q.to_string());
    ty!(
        "PriceLevelSnapshot",
        snaps,
        |a: &PriceLevelSnapshot, b: &PriceLevelSnapshot| (a.price, a.visible_quantity, a.hidden_quantity, a.order_count)
            == (b.price, b.visible_quantity, b.hidden_quantity, b.order_count),
        |s: &PriceLevelSnapshot| s.to_string()
    );
    // snapshot summaries with arbitrary aggregate values
    let mut synth = vec![];
    for a in [0, 1, BIG, M - 1, M] {
        for b in [0, 1, BIG, M - 1, M] {
            for c in [0usize, 1, (BIG + 2) as usize, usize::MAX] {
                let mut s = PriceLevelSnapshot::new(a);
                s.visible_quantity = b;
                s.hidden_quantity = a;
                s.order_count = c;
                synth.push(s);
            }
        }
    }
    ty!(
        "PriceLevelSnapshot(synthetic)",
        synth,
        |a: &PriceLevelSnapshot, b: &PriceLevelSnapshot| (a.price, a.visible_quantity, a.hidden_quantity, a.order_count)
            == (b.price, b.visible_quantity, b.hidden_quantity, b.order_count),
        |s: &PriceLevelSnapshot| s.to_string()
    );
    ty!("PriceLevelStatistics", stats_values(), |a: &PriceLevelStatistics, b: &PriceLevelStatistics| stats_fields(a) == stats_fields(b), stats_fields);
    finish_grid(&mut report, t, "C16", "parse(print(v)) == v for every value of the boundary grid (ids x prices x quantities x sides x timestamps x time-in-force x type parameters), per codec type; non-trivial = values with at least one field at a 64-bit boundary or a non-default variant (all of them except the handful of all-zero values)");
    drop(_rec);
    crate::conc_checks::run_into(&mut report, "C16", tier, 0.3);
    report.finish()
}

pub fn run_c17(tier: &str) -> i32 {
    let full = true;
    let mut report = Report::new("C17", tier, "exploration");
    let mut t = Tally::new();
    let _rec = crate::rec::Recorder::install();
    macro_rules! ty {
        ($name:expr, $vals:expr, $eq:expr, $show:expr) => {{
            let vals = $vals;
            let before = t.evaluations;
            for v in vals.iter() {
                json_trip(&mut t, $name, v, &$eq, &$show);
            }
            t.per_type.push(($name.to_string(), t.evaluations - before));
            sample(&mut t, $name, &vals, &$show);
        }};
    }
    ty!("OrderId", ids(), |a: &OrderId, b: &OrderId| a == b, dbg::<OrderId>);
    ty!("Side", SIDES.to_vec(), |a: &Side, b: &Side| a == b, dbg::<Side>);
    ty!("TimeInForce", tifs(), |a: &TimeInForce, b: &TimeInForce| a == b, dbg::<TimeInForce>);
    ty!("PegReferenceType", pegs(), |a: &PegReferenceType, b: &PegReferenceType| a == b, dbg::<PegReferenceType>);
    ty!("OrderType", orders(full), |a: &Ord_, b: &Ord_| rec(a) == rec(b) && a == b, dbg::<Ord_>);
    ty!("OrderUpdate", updates(), |a: &OrderUpdate, b: &OrderUpdate| dbg(a) == dbg(b), dbg::<OrderUpdate>);
    ty!("Transaction", transactions(full), |a: &Transaction, b: &Transaction| a == b, dbg::<Transaction>);
    ty!("TransactionList", transaction_lists(), |a: &TransactionList, b: &TransactionList| a == b, dbg::<TransactionList>);
    ty!("MatchResult", match_results(), |a: &MatchResult, b: &MatchResult| dbg(a) == dbg(b), dbg::<MatchResult>);
    let lists = order_lists();
    let mut levels = vec![];
    let mut queues = vec![];
    let mut snaps = vec![];
    let mut packages = vec![];
    for l in &lists {
        for price in [0, LEVEL_PRICE, BIG, M - 1, M] {
            if let Some(level) = level_for(l, price) {
                snaps.push(level.snapshot());
                if let Ok(p) = level.snapshot_package() {
                    packages.push(p);
                } else {
                    t.fail("C17 snapshot_package failed on a valid level".into());
                }
                levels.push(level);
            }
        }
        queues.push(OrderQueue::from_vec(l.iter().map(|o| Arc::new(*o)).collect()));
    }
    // levels whose running totals have wrapped past 2^64 (two orders of MAX and 2; two icebergs hiding 2^63 each):
    // outside the precondition of the aggregate properties, but still values of the serde-enabled level type
    for (a, b) in [(M, 2u64), (1 << 63, 1 << 63), (M - 1, M - 1)] {
        let l = PriceLevel::new(LEVEL_PRICE);
        for (k, q) in [a, b].iter().enumerate() {
            l.add_order(OrderType::IcebergOrder {
                id: oid(k as u64 + 1),
                price: LEVEL_PRICE,
                visible_quantity: *q,
                hidden_quantity: if a == (1 << 63) { *q } else { 0 },
                side: Side::Sell,
                timestamp: 5 + k as u64,
                time_in_force: TimeInForce::Gtc,
                extra_fields: (),
            });
        }
        levels.push(l);
    }
    let snap_key = |s: &PriceLevelSnapshot| {
        (
            s.price,
            s.visible_quantity,
            s.hidden_quantity,
            s.order_count,
            s.orders.iter().map(|o| rec(o)).collect::<Vec<_>>(),
        )
    };
    ty!("PriceLevel", levels, |a: &PriceLevel, b: &PriceLevel| level_content(a) == level_content(b), |l: &PriceLevel| l.to_string());
    ty!("OrderQueue", queues, |a: &OrderQueue, b: &OrderQueue| queue_content(a) == queue_content(b), |q: &OrderQueue| q.to_string());
    ty!("PriceLevelSnapshot", snaps, |a: &PriceLevelSnapshot, b: &PriceLevelSnapshot| snap_key(a) == snap_key(b), |s: &PriceLevelSnapshot| format!("{s:?}"));
    let mut synth = vec![];
    for a in [0, 1, BIG, M - 1, M] {
        for b in [0, 1, BIG, M - 1, M] {
            for c in [0usize, 1, (BIG + 2) as usize, usize::MAX - 1, usize::MAX] {
                let mut s = PriceLevelSnapshot::new(a);
                s.visible_quantity = b;
                s.hidden_quantity = a ^ 1;
                s.order_count = c;
                synth.push(s);
            }
        }
    }
    // hand-built / merged snapshots: any order sequence, not only the timestamp-sorted one a live level lists
    let mut unsorted: Vec<PriceLevelSnapshot> = vec![];
    for l in lists.iter().filter(|l| l.len() >= 2) {
        for rot in 1..l.len() {
            let mut o: Vec<Ord_> = l.clone();
            o.rotate_left(rot);
            let mut s = PriceLevelSnapshot::new(LEVEL_PRICE);
            s.orders = o.iter().map(|x| Arc::new(*x)).collect();
            s.refresh_aggregates();
            unsorted.push(s.clone());
            o.reverse();
            s.orders = o.iter().map(|x| Arc::new(*x)).collect();
            unsorted.push(s);
        }
    }
    for s in &unsorted {
        if let Ok(p) = PriceLevelSnapshotPackage::new(s.clone()) {
            packages.push(p);
        }
    }
    ty!("PriceLevelSnapshot(any order sequence)", unsorted, |a: &PriceLevelSnapshot, b: &PriceLevelSnapshot| snap_key(a) == snap_key(b), |s: &PriceLevelSnapshot| format!("{s:?}"));
    ty!("PriceLevelSnapshot(synthetic aggregates)", synth, |a: &PriceLevelSnapshot, b: &PriceLevelSnapshot| snap_key(a) == snap_key(b), |s: &PriceLevelSnapshot| format!("{s:?}"));
    // packages: equal and still valid after the trip, through serde and through to_json / from_json
    {
        let before = t.evaluations;
        for p in &packages {
            json_trip(
                &mut t,
                "PriceLevelSnapshotPackage",
                p,
                &|a: &PriceLevelSnapshotPackage, b: &PriceLevelSnapshotPackage| {
                    a.version == b.version
                        && a.checksum == b.checksum
                        && snap_key(&a.snapshot) == snap_key(&b.snapshot)
                        && b.validate().is_ok()
                },
                &|p: &PriceLevelSnapshotPackage| format!("{p:?}"),
            );
            t.evaluations += 1;
            let r = guarded(|| p.to_json().and_then(|j| PriceLevelSnapshotPackage::from_json(&j)));
            match r {
                Ok(Ok(b)) => {
                    if b.validate().is_err() || snap_key(&b.snapshot) != snap_key(&p.snapshot) {
                        t.fail(format!("C17 package does not validate / differs after to_json + from_json: {p:?}"));
                    }
                }
                Ok(Err(e)) => t.fail(format!("C17 package to_json/from_json failed: {e}")),
                Err(m) => t.fail(format!("C17 package to_json/from_json panicked: {m}")),
            }
        }
        t.per_type.push(("PriceLevelSnapshotPackage".into(), t.evaluations - before));
    }
    ty!("PriceLevelStatistics", stats_values(), |a: &PriceLevelStatistics, b: &PriceLevelStatistics| stats_fields(a) == stats_fields(b), stats_fields);
    // the id generator is serde-enabled too: a deserialized generator continues the sequence
    {
        let before = t.evaluations;
        for n in [0usize, 1, 3] {
            let g = UuidGenerator::new(crate::seq_level::NS);
            for _ in 0..n {
                g.next();
            }
            t.evaluations += 1;
            let j = serde_json::to_string(&g).unwrap_or_default();
            match serde_json::from_str::<UuidGenerator>(&j) {
                Ok(g2) => {
                    if g2.next() != g.next() {
                        t.fail(format!("C17 UuidGenerator: deserialized generator does not continue the sequence (json {j})"));
                    }
                }
                Err(e) => t.fail(format!("C17 UuidGenerator does not deserialize: {e} (json {j})")),
            }
        }
        t.per_type.push(("UuidGenerator".into(), t.evaluations - before));
    }
    finish_grid(&mut report, t, "C17", "from_json(to_json(v)) == v for every value of the boundary grid (same grid as C16, incl. integers above 2^53 and the externally tagged GTD variant), per serde-enabled type; packages must still validate after the trip");
    crate::conc_checks::run_into(&mut report, "C17", tier, 0.3);
    report.finish()
}

pub fn finish_grid(report: &mut Report, t: Tally, prop: &str, rule: &str) {
    for f in &t.failures {
        report.violation(f.clone(), json!({"engine": "grid", "property": prop, "case": f}));
    }
    report.add_cov_u64("evaluations", t.evaluations);
    // every enumerated value is distinct by construction; the all-default handful is discounted per type
    let nontrivial = t.evaluations.saturating_sub(t.per_type.len() as u64) + t.nontrivial;
    report.add_cov_u64("distinct_nontrivial", nontrivial);
    report.concat_cov("rule", rule);
    report.append_cov("samples", t.samples.clone());
    report.append_cov(
        "per_type_evaluations",
        t.per_type.iter().map(|(n, c)| json!({"type": n, "values": c})).collect(),
    );
    report.and_cov("exhaustive", true);
    report.assumptions.push("the grid is a finite set of small and 64-bit-boundary values per field; values between the grid points are not visited".into());
}

// ---------------------------------------------------------------------------------------------
// C05

pub fn c05_grid(full: bool) -> Tally {
    let mut t = Tally::new();
    let mut qv: Vec<u64> = (0..=8).collect();
    qv.extend([79, 80, 81, 255, 256, 65_536, (1 << 32) - 1, 1 << 32, 1 << 63, M - 1, M]);
    let mut inc: Vec<u64> = (0..=10).collect();
    inc.extend([79, 80, 81, 255, 256, 65_535, 1 << 32, (1 << 63) + 1, M - 1, M]);
    let thrs = [0, 1, 2, 3, 9, M];
    let amts = [None, Some(0), Some(1), Some(2), Some(80), Some(81), Some(M)];
    let id = oid(7);
    let price = 55;
    let timestamp = 12345;
    let sides: &[Side] = if full { &SIDES } else { &SIDES[..1] };
    let all_tifs = [TimeInForce::Gtd(99), TimeInForce::Gtc, TimeInForce::Ioc, TimeInForce::Fok, TimeInForce::Day];
    let mut check = |t: &mut Tally, o: &Ord_, incoming: u64| {
        t.evaluations += 1;
        let vis = o_vis(o);
        let hid = o_hid(o);
        let r = guarded(|| o.match_against(incoming));
        let (consumed, updated, hidden_reduced, remaining) = match r {
            Ok(x) => x,
            Err(p) => {
                t.fail(format!("C05 match_against({}, {incoming}) panicked: {p}", short(o)));
                return;
            }
        };
        let mut bad: Vec<String> = vec![];
        if consumed != incoming.min(vis) {
            bad.push(format!("consumed {consumed} != min(incoming, displayed) {}", incoming.min(vis)));
        }
        if remaining != incoming - incoming.min(vis) {
            bad.push(format!("remaining {remaining} != incoming - consumed {}", incoming - incoming.min(vis)));
        }
        let exhausted = vis <= incoming;
        let ro = rec(o);
        if let Some(u) = &updated {
            let ru = rec(u);
            let (v2, h2) = (ru.vis, ru.hid);
            if v2 as u128 + h2 as u128 != vis as u128 + hid as u128 - incoming.min(vis) as u128 {
                bad.push(format!("total not conserved: {vis}+{hid}-{} != {v2}+{h2}", incoming.min(vis)));
            }
            if hid >= h2 && hidden_reduced != hid - h2 {
                bad.push(format!("hidden_reduced {hidden_reduced} != hidden before {hid} - hidden after {h2}"));
            }
            if h2 > hid {
                bad.push(format!("hidden quantity grew from {hid} to {h2}"));
            }
            if (Rec { vis: 0, hid: 0, ..ro }) != (Rec { vis: 0, hid: 0, ..ru }) {
                bad.push("identity fields or type parameters changed".into());
            }
        } else if hidden_reduced != 0 {
            bad.push(format!("order leaves but hidden_reduced = {hidden_reduced}"));
        }
        match ro.kind {
            1 => {
                // iceberg
                if exhausted {
                    if (hid > 0) != updated.is_some() {
                        bad.push(format!("exhausted iceberg with hidden {hid}: stays = {}", updated.is_some()));
                    }
                    if let Some(u) = &updated {
                        let tr = o_vis(u);
                        if tr > vis || tr > hid {
                            bad.push(format!("new tranche {tr} larger than the exhausted display {vis} or than hidden {hid}"));
                        }
                    }
                } else if updated.map(|u| (o_vis(&u), o_hid(&u))) != Some((vis - incoming, hid)) {
                    bad.push("partial fill of an iceberg must only shrink the display".into());
                }
            }
            _ => {
                // reserve and plain types are fully determined by the statement
                let sm = spec_match_against(o, incoming);
                if updated != sm.updated {
                    bad.push(format!(
                        "resulting order {:?} but the rules give {:?}",
                        updated.as_ref().map(short),
                        sm.updated.as_ref().map(short)
                    ));
                }
                if hidden_reduced != sm.hidden_reduced {
                    bad.push(format!("hidden_reduced {hidden_reduced} != {}", sm.hidden_reduced));
                }
            }
        }
        if vis > 0 && incoming > 0 && (hid > 0 || !exhausted) {
            t.nontrivial += 1;
        }
        if !bad.is_empty() {
            t.fail(format!("C05 match_against({}, incoming {incoming}): {}", short(o), bad.join("; ")));
        }
    };
    for (side, time_in_force) in sides.iter().flat_map(|s| all_tifs.iter().map(move |t| (*s, *t))) {
        for q in &qv {
            let quantity = *q;
            let plain = [
                OrderType::Standard { id, price, quantity, side, timestamp, time_in_force, extra_fields: () },
                OrderType::PostOnly { id, price, quantity, side, timestamp, time_in_force, extra_fields: () },
                OrderType::MarketToLimit { id, price, quantity, side, timestamp, time_in_force, extra_fields: () },
                OrderType::TrailingStop { id, price, quantity, side, timestamp, time_in_force, trail_amount: 3, last_reference_price: 9, extra_fields: () },
                OrderType::PeggedOrder { id, price, quantity, side, timestamp, time_in_force, reference_price_offset: -4, reference_price_type: PegReferenceType::LastTrade, extra_fields: () },
            ];
            for o in &plain {
                for i in &inc {
                    check(&mut t, o, *i);
                }
            }
            for h in &qv {
                if *q as u128 + *h as u128 > M as u128 {
                    continue;
                }
                let ice = OrderType::IcebergOrder { id, price, visible_quantity: quantity, hidden_quantity: *h, side, timestamp, time_in_force, extra_fields: () };
                for i in &inc {
                    check(&mut t, &ice, *i);
                }
                for thr in thrs {
                    for amt in amts {
                        for auto in [true, false] {
                            let rs = OrderType::ReserveOrder {
                                id, price, visible_quantity: quantity, hidden_quantity: *h, side, timestamp, time_in_force,
                                replenish_threshold: thr, replenish_amount: amt, auto_replenish: auto, extra_fields: (),
                            };
                            for i in &inc {
                                check(&mut t, &rs, *i);
                            }
                        }
                    }
                }
            }
        }
    }
    t.samples.push(json!({"order": "RS(3,4,thr2,amt2,auto)", "incoming": 2, "note": "every (order, incoming) pair of the grid is evaluated"}));
    t.samples.push(json!({"order": short(&mk(Tmpl::IC23, 1, LEVEL_PRICE)), "incoming": 2}));
    t
}

pub fn run_c05(tier: &str) -> i32 {
    let mut report = Report::new("C05", tier, "exploration");
    let t = c05_grid(true);
    for f in &t.failures {
        report.violation(f.clone(), json!({"engine": "grid", "property": "C05", "case": f}));
    }
    report.cov("evaluations", json!(t.evaluations));
    report.cov("distinct_nontrivial", json!(t.nontrivial));
    report.cov("rule", json!("full Cartesian product: 7 order types x displayed, hidden in {0..8,79,80,81,255,256,2^16,2^32-1,2^32,2^63,MAX-1,MAX} (displayed+hidden <= MAX) x threshold in {0,1,2,3,9,MAX} x amount in {None,0,1,2,80,81,MAX} x auto x incoming in {0..10,79,80,81,255,256,2^16-1,2^32,2^63+1,MAX-1,MAX} x side x time-in-force in {GTD, GTC, IOC, FOK, DAY}; each match_against result is checked against the statement's predicates (iceberg tranche as an inequality, everything else exactly); non-trivial = displayed > 0, incoming > 0 and the order is partially filled or has hidden quantity"));
    report.cov("samples", json!(t.samples));
    report.cov("exhaustive", json!(true));
    report.assumptions = vec!["grid values only; the same rules are observed through PriceLevel::match_order by engine S (C02, C04)".into()];
    crate::sweeps::add_to(&mut report, "C05", tier);
    report.finish()
}

// ---------------------------------------------------------------------------------------------
// C02, MatchResult builder part

pub fn c02_builder() -> Tally {
    let mut t = Tally::new();
    let qs = [0u64, 1, 2, 3, M];
    let inits = [0u64, 1, 2, 3, 4, 5, 6, M];
    let taker = oid(900);
    let mk_tx = |q: u64, k: usize, tx_taker: OrderId| Transaction {
        transaction_id: Uuid::from_u128(k as u128),
        taker_order_id: tx_taker,
        maker_order_id: oid(k as u64 + 1),
        price: 100,
        quantity: q,
        taker_side: Side::Buy,
        timestamp: 1,
    };
    // every sequence of <= 4 transactions with quantities in qs whose sum does not exceed the initial quantity
    let mut seqs: Vec<Vec<u64>> = vec![vec![]];
    let mut frontier: Vec<Vec<u64>> = vec![vec![]];
    for _ in 0..4 {
        let mut next = vec![];
        for s in &frontier {
            for q in qs {
                let mut n = s.clone();
                n.push(q);
                next.push(n);
            }
        }
        seqs.extend(next.iter().cloned());
        frontier = next;
    }
    // the transactions carry the result's own taker id, an unrelated id, or the other-format twin of the result's id
    let tx_takers = [taker, oid(7), oid(4)];
    let result_ids = [taker, oid(1)];
    for init in inits {
      for (rid, txt) in result_ids.iter().flat_map(|r| tx_takers.iter().map(move |t| (*r, *t))) {
        for s in &seqs {
            if s.len() > 3 && (rid, txt) != (taker, taker) {
                continue;
            }
            let sum: u128 = s.iter().map(|x| *x as u128).sum();
            if sum > init as u128 {
                continue;
            }
            t.evaluations += 1;
            if !s.is_empty() {
                t.nontrivial += 1;
            }
            let r = guarded(|| {
                let mut m = MatchResult::new(rid, init);
                let mut msgs = vec![];
                let mut acc: u128 = 0;
                if m.remaining_quantity != init || (m.is_complete && init != 0 && s.is_empty() && false) {
                    msgs.push("fresh result: remaining != initial".to_string());
                }
                for (k, q) in s.iter().enumerate() {
                    m.add_transaction(mk_tx(*q, k, txt));
                    acc += *q as u128;
                    if m.remaining_quantity as u128 != init as u128 - acc {
                        msgs.push(format!("after {} transactions remaining {} != initial {init} - sum {acc}", k + 1, m.remaining_quantity));
                    }
                    if m.is_complete != (m.remaining_quantity == 0) {
                        msgs.push(format!("is_complete {} but remaining {}", m.is_complete, m.remaining_quantity));
                    }
                }
                if m.executed_quantity() as u128 != acc {
                    msgs.push(format!("executed_quantity {} != sum {acc}", m.executed_quantity()));
                }
                if m.transactions.len() != s.len() {
                    msgs.push("transaction count differs".into());
                }
                msgs
            });
            match r {
                Ok(msgs) => {
                    for m in msgs {
                        t.fail(format!("C02 MatchResult::new({}, {init}) + transactions {s:?} carrying taker id {}: {m}", idname(rid), idname(txt)));
                    }
                }
                Err(p) => t.fail(format!("C02 MatchResult builder panicked for initial {init}, transactions {s:?}: {p}")),
            }
        }
      }
    }
    t.samples.push(json!({"builder": {"initial": 6, "transactions": [1, 2, 3]}}));
    t
}
