//! Engine C core: a deterministic cooperative scheduler. Every program thread is a stackful
//! coroutine running the real API calls; the *Before* event of every hooked shared-memory operation
//! suspends the coroutine and returns to the scheduler loop, which resumes the thread it picks.
//! Exactly one thread runs at a time and switches happen only at hooked operations (sequentially
//! consistent interleavings at the granularity of one atomic / map / queue operation).
//!
//! Exploration is stateless: `explore` re-runs the program with every alternative choice at every
//! decision point beyond the replayed prefix (iterative preemption bounding).

use corosensei::stack::DefaultStack;
use corosensei::{Coroutine, CoroutineResult, Yielder};
use pricelevel::verif_hooks::{self, Class, Event, Phase};
use std::cell::{Cell, RefCell};
use std::rc::Rc;

pub const MAX_THREADS: usize = 6;
pub const HARNESS_TID: i32 = -1;

#[derive(Clone, Copy, Debug, PartialEq, Eq, Hash)]
pub struct LogEntry {
    /// global step number at which the operation was executed (0 = setup)
    pub step: u32,
    /// program thread (or HARNESS_TID)
    pub tid: i8,
    /// index of the API call within the thread's program
    pub opi: u8,
    pub ev: Event,
}

pub struct SchedTls {
    pub cur_tid: Cell<i32>,
    yielders: RefCell<[*const Yielder<(), ()>; MAX_THREADS]>,
    pub log: RefCell<Vec<LogEntry>>,
    pub cur_op: [Cell<u8>; MAX_THREADS],
    pub harness_op: Cell<u8>,
    pub step: Cell<u32>,
    /// objects whose operations are not scheduling points (sound reduction, see DESIGN 3.3)
    pub noyield: RefCell<Vec<u64>>,
    pub logging: Cell<bool>,
    pub created: RefCell<Vec<(Class, u64)>>,
    pub pending: RefCell<[Option<Event>; MAX_THREADS]>,
    pub other_ops: Cell<u64>,
    /// remaining hooked operations the harness itself may perform (drain etc.); u64::MAX = unlimited
    pub harness_budget: Cell<u64>,
    /// threads that are scheduled at the granularity of whole calls (only `yield_point` suspends them)
    pub coarse: [Cell<bool>; MAX_THREADS],
    stacks: RefCell<Vec<DefaultStack>>,
}

thread_local! {
    pub static SCHED: SchedTls = SchedTls {
        cur_tid: Cell::new(HARNESS_TID),
        yielders: RefCell::new([std::ptr::null(); MAX_THREADS]),
        log: RefCell::new(Vec::new()),
        cur_op: Default::default(),
        harness_op: Cell::new(0),
        step: Cell::new(0),
        noyield: RefCell::new(Vec::new()),
        logging: Cell::new(true),
        created: RefCell::new(Vec::new()),
        pending: RefCell::new([None; MAX_THREADS]),
        other_ops: Cell::new(0),
        harness_budget: Cell::new(u64::MAX),
        coarse: Default::default(),
        stacks: RefCell::new(Vec::new()),
    };
}

/// Installs the scheduler's hook on the calling OS thread (idempotent).
pub fn install_hook() {
    verif_hooks::set_thread_hook(Some(Rc::new(|ev: &Event| {
        SCHED.with(|s| match ev.phase {
            Phase::New => s.created.borrow_mut().push((ev.class, ev.obj)),
            Phase::Before => {
                let tid = s.cur_tid.get();
                if ev.kind == verif_hooks::Kind::Other {
                    s.other_ops.set(s.other_ops.get() + 1);
                }
                if tid < 0 {
                    let b = s.harness_budget.get();
                    if b != u64::MAX {
                        if b == 0 {
                            s.harness_budget.set(u64::MAX);
                            std::panic::resume_unwind(Box::new(crate::rec::BudgetExceeded));
                        }
                        s.harness_budget.set(b - 1);
                    }
                }
                if tid >= 0 {
                    let skip = s.noyield.borrow().contains(&ev.obj) || s.coarse[tid as usize].get();
                    if !skip {
                        s.pending.borrow_mut()[tid as usize] = Some(*ev);
                        let y = s.yielders.borrow()[tid as usize];
                        // SAFETY: the pointer was registered by the coroutine that is currently
                        // running on this OS thread (cur_tid) and stays valid while it runs.
                        unsafe { (*y).suspend(()) };
                    }
                }
            }
            Phase::After => {
                if s.logging.get() {
                    let tid = s.cur_tid.get();
                    let opi = if tid >= 0 {
                        s.cur_op[tid as usize].get()
                    } else {
                        s.harness_op.get()
                    };
                    s.log.borrow_mut().push(LogEntry {
                        step: s.step.get(),
                        tid: tid as i8,
                        opi,
                        ev: *ev,
                    });
                }
            }
        })
    })));
}

pub fn uninstall_hook() {
    verif_hooks::set_thread_hook(None);
}

/// Resets the per-execution state (call before building the shared objects of an execution).
pub fn begin_execution() {
    verif_hooks::reset_object_ids();
    verif_hooks::set_listing_permutation(Some(0));
    SCHED.with(|s| {
        s.cur_tid.set(HARNESS_TID);
        s.log.borrow_mut().clear();
        s.created.borrow_mut().clear();
        s.noyield.borrow_mut().clear();
        s.step.set(0);
        s.harness_op.set(0);
        s.logging.set(true);
        s.other_ops.set(0);
        for c in &s.cur_op {
            c.set(0);
        }
        for c in &s.coarse {
            c.set(false);
        }
        *s.pending.borrow_mut() = [None; MAX_THREADS];
    });
}

/// Marks a thread as coarse-grained: its hooked operations are not scheduling points, only `yield_point()` is.
pub fn set_coarse(tid: usize, coarse: bool) {
    SCHED.with(|s| s.coarse[tid].set(coarse));
}

pub fn is_coarse(tid: usize) -> bool {
    SCHED.with(|s| s.coarse[tid].get())
}

/// An explicit scheduling point of the calling program thread (used between the calls of a coarse-grained thread).
pub fn yield_point() {
    SCHED.with(|s| {
        let tid = s.cur_tid.get();
        if tid >= 0 {
            let y = s.yielders.borrow()[tid as usize];
            // SAFETY: as in the hook - the pointer belongs to the coroutine that is running right now
            unsafe { (*y).suspend(()) };
        }
    });
}

pub fn set_cur_op(tid: usize, opi: u8) {
    SCHED.with(|s| s.cur_op[tid].set(opi));
}

/// Run `f` as the harness with a budget of hooked operations; `None` if it was exceeded or `f` panicked.
pub fn as_harness_budgeted<R>(logging: bool, budget: u64, f: impl FnOnce() -> R) -> Option<R> {
    SCHED.with(|s| s.harness_budget.set(budget));
    let r = std::panic::catch_unwind(std::panic::AssertUnwindSafe(|| as_harness(logging, f)));
    SCHED.with(|s| {
        s.harness_budget.set(u64::MAX);
        s.cur_tid.set(HARNESS_TID);
        s.logging.set(true);
    });
    r.ok()
}

pub fn take_log() -> Vec<LogEntry> {
    SCHED.with(|s| std::mem::take(&mut *s.log.borrow_mut()))
}

pub fn created() -> Vec<(Class, u64)> {
    SCHED.with(|s| s.created.borrow().clone())
}

pub fn set_noyield(objs: Vec<u64>) {
    SCHED.with(|s| *s.noyield.borrow_mut() = objs);
}

/// Run `f` as the harness (no yields), with logging on or off.
pub fn as_harness<R>(logging: bool, f: impl FnOnce() -> R) -> R {
    SCHED.with(|s| {
        let prev_tid = s.cur_tid.replace(HARNESS_TID);
        let prev_log = s.logging.replace(logging);
        let r = f();
        s.cur_tid.set(prev_tid);
        s.logging.set(prev_log);
        r
    })
}

#[derive(Clone, Copy, Debug, PartialEq, Eq)]
pub struct Point {
    pub n_enabled: u8,
    pub chosen: u8,
    /// the thread that ran the previous step is still enabled (choosing another one is a preemption)
    pub running_enabled: bool,
    /// thread id actually chosen
    pub tid: u8,
}

#[derive(Clone, Debug, Default)]
pub struct RunOut {
    pub points: Vec<Point>,
    pub steps: u32,
    pub aborted: bool,
    pub diverged: bool,
    pub preemptions: u32,
}

type Body = Box<dyn FnOnce()>;

/// Runs the thread bodies under the scheduler, replaying `prefix` (choice indices at the decision
/// points with >= 2 enabled threads) and taking choice 0 afterwards. `after_step(step, tid)` runs as
/// the harness after every executed step.
pub fn run_threads(
    bodies: Vec<Body>,
    prefix: &[u8],
    max_steps: u32,
    after_step: &mut dyn FnMut(u32, u8),
) -> RunOut {
    let n = bodies.len();
    assert!(n <= MAX_THREADS);
    let mut coros: Vec<Option<Coroutine<(), (), ()>>> = Vec::with_capacity(n);
    for (tid, body) in bodies.into_iter().enumerate() {
        let stack = SCHED
            .with(|s| s.stacks.borrow_mut().pop())
            .unwrap_or_else(|| DefaultStack::new(256 * 1024).expect("coroutine stack"));
        coros.push(Some(Coroutine::with_stack(
            stack,
            move |y: &Yielder<(), ()>, ()| {
                SCHED.with(|s| s.yielders.borrow_mut()[tid] = y as *const _);
                body();
            },
        )));
    }
    let mut done = vec![false; n];
    let mut out = RunOut::default();

    let resume = |coros: &mut Vec<Option<Coroutine<(), (), ()>>>, done: &mut Vec<bool>, tid: usize| {
        SCHED.with(|s| s.cur_tid.set(tid as i32));
        let r = coros[tid].as_mut().unwrap().resume(());
        SCHED.with(|s| s.cur_tid.set(HARNESS_TID));
        if let CoroutineResult::Return(()) = r {
            done[tid] = true;
            let c = coros[tid].take().unwrap();
            let st = c.into_stack();
            SCHED.with(|s| s.stacks.borrow_mut().push(st));
        }
    };

    // prelude: every thread runs up to its first shared-memory operation (no shared effects)
    for tid in 0..n {
        resume(&mut coros, &mut done, tid);
    }

    let mut current: Option<usize> = None;
    let mut k = 0usize; // decision index
    loop {
        let mut enabled: Vec<usize> = Vec::with_capacity(n);
        let running_enabled = current.map(|c| !done[c]).unwrap_or(false);
        if running_enabled {
            enabled.push(current.unwrap());
        }
        for t in 0..n {
            if !done[t] && Some(t) != current.filter(|_| running_enabled) {
                enabled.push(t);
            }
        }
        if enabled.is_empty() {
            break;
        }
        let tid = if enabled.len() == 1 {
            enabled[0]
        } else {
            let choice = if k < prefix.len() { prefix[k] as usize } else { 0 };
            if choice >= enabled.len() {
                out.diverged = true;
                break;
            }
            k += 1;
            if running_enabled && choice != 0 {
                out.preemptions += 1;
            }
            out.points.push(Point {
                n_enabled: enabled.len() as u8,
                chosen: choice as u8,
                running_enabled,
                tid: enabled[choice] as u8,
            });
            enabled[choice]
        };
        out.steps += 1;
        if out.steps > max_steps {
            out.aborted = true;
            break;
        }
        SCHED.with(|s| s.step.set(out.steps));
        resume(&mut coros, &mut done, tid);
        current = Some(tid);
        after_step(out.steps, tid as u8);
    }
    if k < prefix.len() && !out.diverged && !out.aborted {
        // the prefix asked for more decisions than the execution had
        out.diverged = true;
    }
    // unfinished coroutines (aborted executions) are unwound by their Drop
    SCHED.with(|s| s.cur_tid.set(HARNESS_TID));
    drop(coros);
    out
}

/// One unit of exploration work.
#[derive(Clone, Debug)]
pub struct Work {
    pub program: u32,
    pub prefix: Vec<u8>,
    /// preemptions already spent by `prefix`
    pub cost: u32,
}

/// Children of an executed schedule under the preemption bound (`None` = unbounded).
pub fn children(program: u32, prefix_len: usize, out: &RunOut, bound: Option<u32>, into: &mut Vec<Work>) {
    let mut cost_before: u32 = 0;
    let choices: Vec<u8> = out.points.iter().map(|p| p.chosen).collect();
    for (i, p) in out.points.iter().enumerate() {
        if i >= prefix_len {
            for alt in 1..p.n_enabled {
                let c = cost_before + if p.running_enabled { 1 } else { 0 };
                if let Some(b) = bound {
                    if c > b {
                        continue;
                    }
                }
                let mut pre = choices[..i].to_vec();
                pre.push(alt);
                into.push(Work {
                    program,
                    prefix: pre,
                    cost: c,
                });
            }
        }
        if p.running_enabled && p.chosen != 0 {
            cost_before += 1;
        }
    }
}
