//! Clock seam. The library (and any change to it) reads time through std, which ends in libc's `clock_gettime`.
//! The harness binary defines that symbol itself: outside a subject execution it forwards to the kernel; while the
//! harness has installed a virtual clock on the calling OS thread, the answer is the harness's choice - a clock
//! that starts at a fixed instant and advances by a fixed step at every reading. Time-driven behaviour
//! ("once a second ...", "older than ...") is thereby an explorable, deterministic environment answer instead of
//! something a run of a few microseconds never reaches.

use std::cell::Cell;

#[derive(Clone, Copy, Debug, PartialEq, Eq)]
pub struct VClock {
    pub now_ns: i128,
    pub step_ns: i128,
}

thread_local! {
    static VCLOCK: Cell<Option<VClock>> = const { Cell::new(None) };
    static READS: Cell<u64> = const { Cell::new(0) };
}

/// 2023-11-14T22:13:20Z
pub const EPOCH_NS: i128 = 1_700_000_000_000_000_000;

/// installs (or removes) the virtual clock of this OS thread; returns the previous one
pub fn set(v: Option<i128>) -> Option<VClock> {
    VCLOCK.with(|c| c.replace(v.map(|step_ns| VClock { now_ns: EPOCH_NS, step_ns })))
}

pub fn restore(prev: Option<VClock>) {
    VCLOCK.with(|c| c.set(prev));
}

/// clock readings answered by the virtual clock on this thread so far
pub fn reads() -> u64 {
    READS.with(|r| r.get())
}


/// # Safety
/// same contract as libc's clock_gettime: `ts` points to a writable timespec
#[unsafe(no_mangle)]
pub unsafe extern "C" fn clock_gettime(clk: libc::clockid_t, ts: *mut libc::timespec) -> libc::c_int {
    let virt = VCLOCK.try_with(|c| {
        let v = c.get()?;
        c.set(Some(VClock { now_ns: v.now_ns + v.step_ns, step_ns: v.step_ns }));
        Some(v.now_ns + v.step_ns)
    });
    if let Ok(Some(ns)) = virt {
        if !ts.is_null() {
            let _ = READS.try_with(|r| r.set(r.get() + 1));
            // SAFETY: caller's contract
            unsafe {
                (*ts).tv_sec = (ns / 1_000_000_000) as libc::time_t;
                (*ts).tv_nsec = (ns % 1_000_000_000) as libc::c_long;
            }
            return 0;
        }
    }
    // SAFETY: plain system call with the caller's arguments
    unsafe { libc::syscall(libc::SYS_clock_gettime, clk, ts) as libc::c_int }
}
