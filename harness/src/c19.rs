//! C19: the exported OrderQueue used on its own is a FIFO with lookup and removal by id.
//! Engine S subject on the real `OrderQueue`, against `ModelQueue` (ideal, and the KF2 variant).

use crate::common::*;
use crate::model::ModelQueue;
use crate::rec::{BudgetOrPanic, Recorder};
use crate::seqmc::{BfsConfig, StepOut, Subject, bfs};
use pricelevel::{OrderQueue, OrderType};
use serde_json::{Value, json};
use std::str::FromStr;
use std::sync::Arc;

#[derive(Clone, Copy, Debug, PartialEq, Eq)]
pub enum QOp {
    Push(u64),
    Pop,
    Remove(u64),
    Find(u64),
    Len,
    IsEmpty,
    ToVec,
    /// macro letters: push #100..#100+n, remove the first k of them, remove every second one of the first n
    BulkPush(u64),
    BulkRemove(u64),
    BulkRemoveEven(u64),
}

/// queue-alphabet ids: 1..3 are UUID-format ids, 4 is a ULID-format id with the same 16 bytes as #1
pub fn q_id(id: u64) -> pricelevel::OrderId {
    oid(id)
}

pub fn q_order(id: u64) -> Ord_ {
    if id == 4 {
        return crate::seq_level::set_id_ts(&mk_ts(Tmpl::S3, 1, LEVEL_PRICE, 15), q_id(4), 15);
    }
    q_order_plain(id)
}

fn q_order_plain(id: u64) -> Ord_ {
    // #1 later than #2 and #3, which tie
    let t = match id {
        1 => Tmpl::S5,
        2 => Tmpl::IC23,
        _ => Tmpl::RSa,
    };
    let ts = match id {
        1 => 20,
        2 => 10,
        _ => 10,
    };
    mk_ts(t, id, LEVEL_PRICE, ts)
}

impl PartialEq for QRes {
    fn eq(&self, o: &Self) -> bool {
        match (self, o) {
            (QRes::Unit, QRes::Unit) => true,
            (QRes::Order(a), QRes::Order(b)) => a.as_ref().map(rec) == b.as_ref().map(rec),
            (QRes::Num(a), QRes::Num(b)) => a == b,
            (QRes::Bool(a), QRes::Bool(b)) => a == b,
            (QRes::List(a), QRes::List(b)) => same_orders(a, b),
            (QRes::Failed(a), QRes::Failed(b)) => a == b,
            _ => false,
        }
    }
}

#[derive(Clone, Debug)]
pub enum QRes {
    Unit,
    Order(Option<Ord_>),
    Num(usize),
    Bool(bool),
    List(Vec<Ord_>),
    Failed(String),
}

pub struct QueueSubject {
    pub ops: Vec<QOp>,
    pub known: KnownFindings,
}

#[derive(Clone, Copy, Debug)]
pub struct QAux {
    pub alive: u8,
    pub queued: u8,
}

fn bulk_q_order(i: u64) -> Ord_ {
    crate::seq_level::bulk_order(i, LEVEL_PRICE)
}

fn apply_impl(rec: &Recorder, q: &OrderQueue, op: &QOp) -> QRes {
    let r = rec.with_budget(10_000, || match op {
        QOp::BulkPush(n) => {
            for i in 0..*n {
                q.push(Arc::new(bulk_q_order(i)));
            }
            QRes::Unit
        }
        QOp::BulkRemove(k) => QRes::Num((0..*k).filter(|i| q.remove(oid(100 + i)).is_some()).count()),
        QOp::BulkRemoveEven(n) => QRes::Num((0..*n).step_by(2).filter(|i| q.remove(oid(100 + i)).is_some()).count()),
        QOp::Push(id) => {
            q.push(Arc::new(q_order(*id)));
            QRes::Unit
        }
        QOp::Pop => QRes::Order(q.pop().map(|o| *o)),
        QOp::Remove(id) => QRes::Order(q.remove(q_id(*id)).map(|o| *o)),
        QOp::Find(id) => QRes::Order(q.find(q_id(*id)).map(|o| *o)),
        QOp::Len => QRes::Num(q.len()),
        QOp::IsEmpty => QRes::Bool(q.is_empty()),
        QOp::ToVec => {
            let mut v: Vec<Ord_> = q.to_vec().iter().map(|o| **o).collect();
            v.sort_by_key(|o| rec_key(o));
            QRes::List(v)
        }
    });
    match r {
        Ok(x) => x,
        Err(BudgetOrPanic::Budget) => QRes::Failed("did not return".into()),
        Err(BudgetOrPanic::Panic(m)) => QRes::Failed(format!("panicked: {m}")),
    }
}

fn rec_key(o: &Ord_) -> Rec {
    rec(o)
}

fn apply_model(m: &mut ModelQueue, op: &QOp) -> QRes {
    match op {
        QOp::BulkPush(n) => {
            for i in 0..*n {
                m.push(bulk_q_order(i));
            }
            QRes::Unit
        }
        QOp::BulkRemove(k) => QRes::Num((0..*k).filter(|i| m.remove(oid(100 + i)).is_some()).count()),
        QOp::BulkRemoveEven(n) => QRes::Num((0..*n).step_by(2).filter(|i| m.remove(oid(100 + i)).is_some()).count()),
        QOp::Push(id) => {
            m.push(q_order(*id));
            QRes::Unit
        }
        QOp::Pop => QRes::Order(m.pop()),
        QOp::Remove(id) => QRes::Order(m.remove(q_id(*id))),
        QOp::Find(id) => QRes::Order(m.find(q_id(*id))),
        QOp::Len => QRes::Num(m.len()),
        QOp::IsEmpty => QRes::Bool(m.len() == 0),
        QOp::ToVec => {
            let mut v = m.orders.clone();
            v.sort_by_key(|o| rec_key(o));
            QRes::List(v)
        }
    }
}

fn content(q: &OrderQueue) -> Vec<Ord_> {
    let mut v: Vec<Ord_> = q.to_vec().iter().map(|o| **o).collect();
    v.sort_by_key(|o| rec_key(o));
    v
}

fn drain(q: &OrderQueue) -> Vec<u128> {
    let mut out = vec![];
    for _ in 0..1024 {
        match q.pop() {
            Some(o) => out.push(rec(&o).id),
            None => break,
        }
    }
    out
}

/// constructors: a queue built from this queue's own forms holds the same orders
fn check_forms(q: &OrderQueue, want: &[Ord_]) -> Vec<String> {
    let mut msgs = vec![];
    let text = q.to_string();
    match OrderQueue::from_str(&text) {
        Ok(q2) => {
            if !same_orders(&content(&q2), want) {
                msgs.push(format!("C19 text form round-trip changed the orders (text {text})"));
            }
        }
        Err(e) => msgs.push(format!("C19 text form does not parse back: {e} (text {text})")),
    }
    match serde_json::to_string(q) {
        Ok(j) => match serde_json::from_str::<OrderQueue>(&j) {
            Ok(q2) => {
                if !same_orders(&content(&q2), want) {
                    msgs.push(format!("C19 JSON form round-trip changed the orders (json {j})"));
                }
            }
            Err(e) => msgs.push(format!("C19 JSON form does not parse back: {e}")),
        },
        Err(e) => msgs.push(format!("C19 JSON serialization failed: {e}")),
    }
    let v = q.to_vec();
    let listing_ids: Vec<u128> = v.iter().map(|o| rec(o).id).collect();
    let q3 = OrderQueue::from_vec(v.clone());
    if !same_orders(&content(&q3), want) || drain(&q3) != listing_ids {
        msgs.push("C19 from_vec(listing): different orders or pop order != list order".into());
    }
    let q4 = OrderQueue::from(v);
    if !same_orders(&content(&q4), want) || drain(&q4) != listing_ids {
        msgs.push("C19 From<Vec>(listing): different orders or pop order != list order".into());
    }
    msgs
}

impl Subject for QueueSubject {
    type Aux = QAux;
    type Ctx = Recorder;
    fn make_ctx(&self) -> Recorder {
        Recorder::install()
    }
    fn num_ops(&self) -> usize {
        self.ops.len()
    }
    fn op_name(&self, op: u16) -> String {
        match self.ops[op as usize] {
            QOp::Push(id) => format!("push #{id}"),
            QOp::Pop => "pop".into(),
            QOp::Remove(id) => format!("remove #{id}"),
            QOp::Find(id) => format!("find #{id}"),
            QOp::Len => "len".into(),
            QOp::IsEmpty => "is_empty".into(),
            QOp::ToVec => "to_vec".into(),
            QOp::BulkPush(n) => format!("push #100..#{}", 99 + n),
            QOp::BulkRemove(k) => format!("remove #100..#{}", 99 + k),
            QOp::BulkRemoveEven(n) => format!("remove every second of #100..#{}", 99 + n),
        }
    }
    fn initial_aux(&self) -> QAux {
        QAux { alive: 3, queued: 0 }
    }
    fn step(
        &self,
        rcd: &mut Recorder,
        hist: &[u16],
        aux: &QAux,
        opi: u16,
        seen: &dyn Fn(u128) -> bool,
    ) -> StepOut<QAux> {
        let op = self.ops[opi as usize];
        if let QOp::Push(id) = op {
            // ids are pushed once, or re-pushed after removal
            if aux.queued & (1 << id) != 0 {
                return StepOut::disabled(*aux);
            }
        }
        match op {
            QOp::BulkPush(_) if aux.queued & 0x80 != 0 => return StepOut::disabled(*aux),
            QOp::BulkRemove(_) | QOp::BulkRemoveEven(_) if aux.queued & 0x80 == 0 => return StepOut::disabled(*aux),
            _ => {}
        }
        rcd.reset();
        let q = OrderQueue::new();
        let qobj = rcd.last_queue().unwrap_or(u64::MAX);
        let mut models = [ModelQueue::new(false), ModelQueue::new(true)];
        for h in hist {
            let o = self.ops[*h as usize];
            let _ = apply_impl(rcd, &q, &o);
            for m in models.iter_mut() {
                let _ = apply_model(m, &o);
            }
        }
        let res = apply_impl(rcd, &q, &op);
        let mres: Vec<QRes> = models.iter_mut().map(|m| apply_model(m, &op)).collect();
        let models_after = models.clone();
        let post = content(&q);
        let len_now = q.len();
        let empty_now = q.is_empty();
        let tickets: Vec<[u8; 16]> = rcd.tickets_of(qobj);
        let mut out = StepOut {
            enabled: true,
            key: 0,
            aux: *aux,
            extend: true,
            violations: vec![],
            known: vec![],
            outcome: hash64(&format!("{res:?}")),
            nontrivial: post.len() >= 2 || tickets.len() > post.len(),
            extra_exec: hist.len() as u64,
        };
        if let QRes::Failed(m) = &res {
            out.violations.push(format!("C19 call failed: {m}"));
            out.extend = false;
        }
        // model-independent: len / is_empty / listing describe exactly the queued orders
        let mut forms_msgs = vec![];
        let recs: Vec<Rec> = post.iter().map(rec).collect();
        let mkeys0: Vec<_> = models_after
            .iter()
            .enumerate()
            .filter(|(i, _)| aux.alive & (1 << i) != 0)
            .map(|(_, m)| m.state_key())
            .collect();
        out.key = hash128(&(&tickets, &recs, aux.alive, &mkeys0));
        if !seen(out.key) {
            forms_msgs = check_forms(&q, &post);
            out.extra_exec += 4;
        }
        // drain (destructive, last)
        let drained = drain(&q);
        let mut new_alive = 0u8;
        let mut why = vec![];
        for (i, m) in models.iter_mut().enumerate() {
            if aux.alive & (1 << i) == 0 {
                continue;
            }
            let mut agree = true;
            if mres[i] != res {
                agree = false;
                why.push(format!(
                    "model[{}] expects {:?} / implementation {:?}",
                    if i == 0 { "ideal" } else { "kf2" },
                    mres[i],
                    res
                ));
            } else {
                let mut want = m.orders.clone();
                want.sort_by_key(|o| rec_key(o));
                if !same_orders(&want, &post) || len_now != want.len() || empty_now != want.is_empty() {
                    agree = false;
                    why.push(format!(
                        "queued orders / len / is_empty differ: model {} orders, implementation lists {} (len {}, is_empty {})",
                        want.len(), post.len(), len_now, empty_now));
                } else {
                    let mut md = vec![];
                    while let Some(o) = m.pop() {
                        md.push(rec(&o).id);
                    }
                    if md != drained {
                        agree = false;
                        why.push(format!(
                            "pop order afterwards: model[{}] expects {:?} / implementation {:?}",
                            if i == 0 { "ideal" } else { "kf2" },
                            md,
                            drained
                        ));
                    }
                }
            }
            if agree {
                new_alive |= 1 << i;
            }
        }
        out.aux.alive = new_alive;
        if new_alive == 0 {
            out.violations.push(format!(
                "C19 the queue behaves neither like a FIFO with removal nor like the known stale-ticket variant: {}",
                why.join(" | ")
            ));
            out.extend = false;
        } else if new_alive & 1 == 0 && aux.alive & 1 != 0 {
            if self.known.is_open("C19", "stale_ticket_keeps_position") {
                out.known.push((
                    "stale_ticket_keeps_position".into(),
                    why.first().cloned().unwrap_or_default(),
                ));
            } else {
                out.violations.push(format!(
                    "C19 FIFO order violated (stale ticket honoured; not an open known finding): {}",
                    why.join(" | ")
                ));
                out.extend = false;
            }
        }
        for m in forms_msgs {
            out.violations.push(m);
            out.extend = false;
        }
        let mkeys: Vec<_> = models_after
            .iter()
            .enumerate()
            .filter(|(i, _)| new_alive & (1 << i) != 0)
            .map(|(_, m)| m.state_key())
            .collect();
        out.key = hash128(&(&tickets, &recs, new_alive, &mkeys));
        let mut queued = 0u8;
        for id in 1..=4u64 {
            let n = idn(q_id(id));
            if recs.iter().any(|r| r.id == n) {
                queued |= 1 << id;
            }
        }
        if recs.iter().any(|r| (100..300).contains(&r.id)) {
            queued |= 0x80;
        }
        out.aux.queued = queued;
        out
    }
}

/// constructors from arbitrary lists: every list of <= 3 distinct orders in every permutation
fn constructor_grid() -> (u64, Vec<String>, Vec<Value>) {
    let mut n = 0u64;
    let mut msgs = vec![];
    let mut samples = vec![];
    let ids = [1u64, 2, 3];
    let mut lists: Vec<Vec<u64>> = vec![vec![]];
    for a in ids {
        lists.push(vec![a]);
        for b in ids {
            if b != a {
                lists.push(vec![a, b]);
                for c in ids {
                    if c != a && c != b {
                        lists.push(vec![a, b, c]);
                    }
                }
            }
        }
    }
    // plus all seven order types in one list
    for list in &lists {
        let orders: Vec<Ord_> = list.iter().map(|i| q_order(*i)).collect();
        let mut want = orders.clone();
        want.sort_by_key(|o| rec_key(o));
        let arcs: Vec<Arc<Ord_>> = orders.iter().map(|o| Arc::new(*o)).collect();
        let list_ids: Vec<u128> = list.iter().map(|i| *i as u128).collect();
        let q1 = OrderQueue::from_vec(arcs.clone());
        n += 1;
        if content(&q1) != want || q1.len() != want.len() || drain(&q1) != list_ids {
            msgs.push(format!("C19 from_vec({list:?}): wrong orders, len or pop order"));
        }
        let q2 = OrderQueue::from(arcs.clone());
        n += 1;
        if content(&q2) != want || drain(&q2) != list_ids {
            msgs.push(format!("C19 From<Vec>({list:?}): wrong orders or pop order"));
        }
        let text = format!(
            "OrderQueue:orders=[{}]",
            orders.iter().map(|o| o.to_string()).collect::<Vec<_>>().join(",")
        );
        n += 1;
        match OrderQueue::from_str(&text) {
            Ok(q3) => {
                if content(&q3) != want || q3.is_empty() != want.is_empty() {
                    msgs.push(format!("C19 FromStr({list:?}): wrong orders"));
                }
            }
            Err(e) => msgs.push(format!("C19 FromStr({list:?}) failed: {e}")),
        }
        let j = serde_json::to_string(&orders).unwrap_or_default();
        n += 1;
        match serde_json::from_str::<OrderQueue>(&j) {
            Ok(q4) => {
                if content(&q4) != want {
                    msgs.push(format!("C19 Deserialize({list:?}): wrong orders"));
                }
            }
            Err(e) => msgs.push(format!("C19 Deserialize({list:?}) failed: {e}")),
        }
        if samples.len() < 3 && list.len() == 3 {
            samples.push(json!({"constructor_list": list, "text": text}));
        }
    }
    // a list with one order of every type
    let all: Vec<Ord_> = ALL_TMPL
        .iter()
        .enumerate()
        .map(|(i, t)| mk(*t, 10 + i as u64, LEVEL_PRICE))
        .collect();
    let mut want = all.clone();
    want.sort_by_key(|o| rec_key(o));
    let q = OrderQueue::from_vec(all.iter().map(|o| Arc::new(*o)).collect());
    n += 3;
    if content(&q) != want {
        msgs.push("C19 from_vec(all templates): wrong orders".into());
    }
    msgs.extend(check_forms(&q, &want));
    let _ = OrderType::<()>::from_str("x");
    (n, msgs, samples)
}

/// A few *long* histories executed directly on the real queue and on the model (ideal and stale-ticket variant):
/// (operations executed, violations, known findings)
fn long_scenarios(tier: &str, kf: &KnownFindings) -> (u64, Vec<String>, Vec<(String, String)>) {
    #[derive(Clone, Copy)]
    enum L {
        Push(u64),
        Remove(u64),
        /// n x (remove id, push id): an order amended n times
        Amend(u64, u64),
        /// n x (push id, remove id): n short-lived orders
        Flash(u64, u64),
    }
    let big = if tier == "quick" { 1u64 } else { 2 };
    let scenarios: Vec<(String, Vec<L>)> = vec![
        ("push #1 #2; amend #1 30 000 times; push #3; amend #1 40 000 times".into(), vec![L::Push(1), L::Push(2), L::Amend(1, 30_000 * big), L::Push(3), L::Amend(1, 40_000 * big)]),
        ("push #1; 65 535 short-lived orders; push #3 #2; remove #3".into(), vec![L::Push(1), L::Flash(3, 65_535), L::Push(3), L::Push(2), L::Remove(3)]),
        ("push #1; 65 536 short-lived orders; push #3 #2; remove #3".into(), vec![L::Push(1), L::Flash(3, 65_536), L::Push(3), L::Push(2), L::Remove(3)]),
        ("push #2; amend #2 70 000 times; remove #2; push #1 #3".into(), vec![L::Push(2), L::Amend(2, 70_000 * big), L::Remove(2), L::Push(1), L::Push(3)]),
        ("push #1 #2 #3; 131 072 short-lived orders #4; remove #2".into(), vec![L::Push(1), L::Push(2), L::Push(3), L::Flash(4, 131_072), L::Remove(2)]),
    ];
    let mut nops = 0u64;
    let mut msgs = vec![];
    let mut known = vec![];
    for (name, steps) in scenarios {
        let r = std::panic::catch_unwind(|| {
            let q = OrderQueue::new();
            let mut ideal = ModelQueue::new(false);
            let mut stale = ModelQueue::new(true);
            let mut n = 0u64;
            for st in &steps {
                let mut one = |push: bool, id: u64| {
                    n += 1;
                    if push {
                        q.push(Arc::new(q_order(id)));
                        ideal.push(q_order(id));
                        stale.push(q_order(id));
                    } else {
                        let _ = q.remove(q_id(id));
                        let _ = ideal.remove(q_id(id));
                        let _ = stale.remove(q_id(id));
                    }
                };
                match *st {
                    L::Push(id) => one(true, id),
                    L::Remove(id) => one(false, id),
                    L::Amend(id, k) => {
                        for _ in 0..k {
                            one(false, id);
                            one(true, id);
                        }
                    }
                    L::Flash(id, k) => {
                        for _ in 0..k {
                            one(true, id);
                            one(false, id);
                        }
                    }
                }
            }
            let len = q.len();
            let listed: Vec<Rec> = content(&q).iter().map(rec).collect();
            let mut want_listed: Vec<Rec> = ideal.orders.iter().map(rec).collect();
            want_listed.sort();
            let mut got = vec![];
            while let Some(o) = q.pop() {
                got.push(rec(&o).id);
                if got.len() > 16 {
                    break;
                }
            }
            let dr = |m: &mut ModelQueue| {
                let mut v = vec![];
                while let Some(o) = m.pop() {
                    v.push(rec(&o).id);
                }
                v
            };
            (n, len, listed, want_listed, got, dr(&mut ideal), dr(&mut stale), q.len())
        });
        match r {
            Err(_) => msgs.push(format!("long scenario [{name}]: the queue panicked")),
            Ok((n, len, listed, want_listed, got, want_ideal, want_stale, len_after)) => {
                nops += n;
                if listed != want_listed || len != want_listed.len() {
                    msgs.push(format!("long scenario [{name}]: the queue lists {} orders (len {len}), the model holds {}", listed.len(), want_listed.len()));
                }
                if len_after != 0 && got.len() <= 16 {
                    msgs.push(format!("long scenario [{name}]: after popping until None the queue still reports {len_after} queued order(s); popped {got:?}"));
                }
                if got == want_ideal {
                } else if got == want_stale && kf.is_open("C19", "stale_ticket_keeps_position") {
                    known.push(("stale_ticket_keeps_position".to_string(), format!("long scenario [{name}]: pop order {got:?}, the ideal FIFO gives {want_ideal:?}")));
                } else {
                    msgs.push(format!("long scenario [{name}]: pop order {got:?}; the FIFO model gives {want_ideal:?} (stale-ticket variant {want_stale:?})"));
                }
            }
        }
    }
    (nops, msgs, known)
}

pub fn run(tier: &str) -> i32 {
    let mut report = Report::new("C19", tier, "model_checking");
    let mut ops = vec![];
    for id in 1..=4 {
        ops.push(QOp::Push(id));
    }
    ops.push(QOp::Pop);
    for id in 1..=4 {
        ops.push(QOp::Remove(id));
    }
    for id in [1, 2, 4] {
        ops.push(QOp::Find(id));
    }
    ops.extend([QOp::Len, QOp::IsEmpty, QOp::ToVec]);
    let subject = QueueSubject {
        ops,
        known: KnownFindings::load(),
    };
    let depth = if tier == "quick" { 10 } else { 16 };
    let cfg = BfsConfig {
        max_depth: depth,
        wall_cap: crate::seq_checks::wall_cap(tier, 1),
        state_cap: 20_000_000,
        threads: crate::seq_checks::threads(),
    };
    let r = bfs(&subject, &cfg);
    println!(
        "  [C19] queue alphabet: letters={} depth {}/{} states={} transitions={} outcomes={} {}",
        subject.ops.len(),
        r.depth_completed,
        depth,
        r.states,
        r.transitions,
        r.distinct_outcomes,
        r.capped.clone().unwrap_or_default()
    );
    let names = |h: &[u16]| h.iter().map(|o| subject.op_name(*o)).collect::<Vec<_>>();
    for (sig, (msg, h, n)) in &r.known {
        report.known(sig, format!("minimal history: {} :: {}", names(h).join("; "), msg));
        if let Some(e) = report.known.get_mut(sig) {
            e.1 += n - 1;
        }
    }
    for (msg, h) in r.violations.iter().take(20) {
        report.violation(
            format!("after history [{}]: {}", names(h).join("; "), msg),
            json!({"engine": "seq-queue", "property": "C19", "tier": tier, "history": h, "history_names": names(h)}),
        );
    }
    // large configurations: 70 queued orders, 64 removed at the head / every second one removed
    let bulk_subject = QueueSubject {
        ops: vec![
            QOp::BulkPush(70),
            QOp::BulkRemove(64),
            QOp::BulkRemove(8),
            QOp::BulkRemoveEven(70),
            QOp::Push(1),
            QOp::Remove(1),
            QOp::Pop,
            QOp::Len,
            QOp::Find(1),
        ],
        known: KnownFindings::load(),
    };
    let bulk_depth = if tier == "quick" { 5 } else { 7 };
    let rb = bfs(
        &bulk_subject,
        &BfsConfig {
            max_depth: bulk_depth,
            wall_cap: crate::seq_checks::wall_cap(tier, 2),
            state_cap: 5_000_000,
            threads: crate::seq_checks::threads(),
        },
    );
    println!(
        "  [C19] bulk alphabet: letters={} depth {}/{} states={} transitions={} {}",
        bulk_subject.ops.len(), rb.depth_completed, bulk_depth, rb.states, rb.transitions, rb.capped.clone().unwrap_or_default()
    );
    let bnames = |h: &[u16]| h.iter().map(|o| bulk_subject.op_name(*o)).collect::<Vec<_>>();
    for (sig, (msg, h, n)) in &rb.known {
        report.known(sig, format!("[bulk] minimal history: {} :: {}", bnames(h).join("; "), msg));
        if let Some(e) = report.known.get_mut(sig) {
            e.1 += n - 1;
        }
    }
    for (msg, h) in rb.violations.iter().take(20) {
        report.violation(
            format!("[bulk] after history [{}]: {}", bnames(h).join("; "), msg),
            json!({"engine": "seq-queue", "property": "C19", "tier": tier, "history": h, "history_names": bnames(h)}),
        );
    }
    // long scenarios: tens of thousands of removals / stale tickets (thresholds such as 2^16 hide behind them)
    {
        let kf = KnownFindings::load();
        let (n, msgs, known) = long_scenarios(tier, &kf);
        for m in msgs {
            report.violation(m.clone(), json!({"engine": "seq-queue", "property": "C19", "long_scenario": m}));
        }
        for (sig, m) in known {
            report.known(&sig, m);
        }
        report.add_cov_u64("long_scenario_operations", n);
    }
    report.add_cov_u64("bulk_alphabet_states", rb.states);
    report.add_cov_u64("bulk_alphabet_transitions", rb.transitions);
    let _rec = Recorder::install();
    let (n, msgs, csamples) = constructor_grid();
    drop(_rec);
    for m in msgs {
        report.violation(m.clone(), json!({"engine": "seq-queue", "constructor": m}));
    }
    let mut samples: Vec<Value> = r
        .samples
        .iter()
        .take(6)
        .map(|h| json!({"history": names(h)}))
        .collect();
    samples.extend(csamples);
    report.cov("states", json!(r.states));
    report.cov("transitions", json!(r.transitions));
    report.cov("traces_validated_against_impl", json!(r.transitions));
    report.cov("evaluations", json!(r.transitions + n));
    report.cov("constructor_cases", json!(n));
    report.cov("distinct_nontrivial", json!(r.nontrivial));
    report.cov("distinct_outcomes", json!(r.distinct_outcomes));
    report.cov("depth_completed", json!(r.depth_completed));
    report.cov("depth_target", json!(depth));
    report.cov("capped", json!(r.capped));
    report.cov("exhaustive", json!(r.capped.is_none() && r.depth_completed == depth || r.per_depth.last().map(|l| l.1 == 0).unwrap_or(false)));
    report.cov("per_depth_new_states_transitions", json!(r.per_depth));
    report.cov("rule", json!("all sequences over push(#1..#3, only if not queued) / pop / remove / find / len / is_empty / to_vec on a real OrderQueue, compared step by step (result, content, len, is_empty, pop order of a final drain) with a FIFO-with-removal model and its stale-ticket variant; in every new state the text / JSON / from_vec / From<Vec> forms are rebuilt; plus every list of <= 3 orders in every permutation through the four constructors; plus five long histories (30 000 - 131 072 removals / re-pushes in a row, around 2^16 and 2^17) compared with the same model; non-trivial = >= 2 queued orders or stale tickets present"));
    report.cov("samples", json!(samples));
    report.assumptions = vec![
        "3 ids, depth as reported; state = ticket mirror + map content (128-bit hash)".into(),
    ];
    report.finish()
}
