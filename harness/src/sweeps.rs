//! Long sweeps: a handful of *large* configurations (one match call visiting 7*10^4 .. 1.2*10^6 makers) executed
//! directly on the real level. Per-call caps, visit budgets and counters hidden behind thresholds such as 2^16 or
//! 2^20 are out of reach of any alphabet of single-order letters; these scenarios are the scale points of the
//! same enumeration (like the macro letters of SC-bulk), checked with the predicates of C01 / C02 / C06.

use crate::common::*;
use crate::seq_level::NS;
use pricelevel::{OrderType, PriceLevel, Side, TimeInForce, UuidGenerator};
use serde_json::{Value, json};
use std::collections::HashMap;

pub struct SweepOut {
    pub scenarios: u64,
    pub maker_visits: u64,
    pub failures: Vec<String>,
    pub samples: Vec<Value>,
}

fn std_order(id: u64, q: u64, ts: u64) -> Ord_ {
    OrderType::Standard {
        id: oid(id),
        price: LEVEL_PRICE,
        quantity: q,
        side: Side::Buy,
        timestamp: ts,
        time_in_force: TimeInForce::Gtc,
        extra_fields: (),
    }
}

fn iceberg(id: u64, v: u64, h: u64) -> Ord_ {
    OrderType::IcebergOrder {
        id: oid(id),
        price: LEVEL_PRICE,
        visible_quantity: v,
        hidden_quantity: h,
        side: Side::Sell,
        timestamp: 5,
        time_in_force: TimeInForce::Gtc,
        extra_fields: (),
    }
}

fn reserve(id: u64, v: u64, h: u64, amt: u64) -> Ord_ {
    OrderType::ReserveOrder {
        id: oid(id),
        price: LEVEL_PRICE,
        visible_quantity: v,
        hidden_quantity: h,
        side: Side::Buy,
        timestamp: 6,
        time_in_force: TimeInForce::Gtc,
        replenish_threshold: 0,
        replenish_amount: Some(amt),
        auto_replenish: true,
        extra_fields: (),
    }
}

/// what a sufficiently large match can get out of an order (closed form; the orders used here always replenish > 0)
fn executable(o: &Ord_) -> u128 {
    let r = rec(o);
    match r.kind {
        1 => {
            if r.vis == 0 { 0 } else { r.vis as u128 + r.hid as u128 }
        }
        6 => {
            if r.p4 == 1 && r.p3 > 0 { r.vis as u128 + r.hid as u128 } else { r.vis as u128 }
        }
        _ => r.vis as u128,
    }
}

struct Scenario {
    name: String,
    orders: Vec<Ord_>,
    /// applied after the k-th order was added: (k, id, same-price amendments to the quantity the order already shows, then cancel it?)
    churn: Vec<(usize, u64, u64, bool)>,
    takers: Vec<u64>,
}

fn scenarios(tier: &str) -> Vec<Scenario> {
    let mut v = vec![];
    // many resting orders, one call sweeps them all and a bit of the last one
    let n = 66_000u64;
    let mut orders: Vec<Ord_> = (0..n).map(|i| std_order(1000 + i, 1, 10 + i)).collect();
    orders.push(std_order(999_999, 10, 10 + n));
    v.push(Scenario {
        name: format!("{n} one-lot orders followed by a ten-lot order; takers {} then 1000", n + 4),
        orders,
        churn: vec![],
        takers: vec![n + 4, 1000],
    });
    // one order re-queued again and again
    v.push(Scenario {
        name: "iceberg 1 / 70 000 and a 5-lot order; takers 70 003 then 1000".into(),
        orders: vec![iceberg(1, 1, 70_000), std_order(2, 5, 9)],
        churn: vec![],
        takers: vec![70_003, 1000],
    });
    v.push(Scenario {
        name: "reserve 1 / 70 000 (replenish 1) and a 5-lot order; takers 70 004 then 1000".into(),
        orders: vec![reserve(1, 1, 70_000, 1), std_order(2, 5, 9)],
        churn: vec![],
        takers: vec![70_004, 1000],
    });
    v.push(Scenario {
        name: "iceberg 1 / 1 200 000; takers 1 200 000 then 1000".into(),
        orders: vec![iceberg(1, 1, 1_200_000)],
        churn: vec![],
        takers: vec![1_200_000, 1000],
    });
    // a level that is amended a lot and never matched: tens of thousands of stale tickets in front of live orders
    let k = if tier == "quick" { 70_000u64 } else { 140_000 };
    v.push(Scenario {
        name: format!("a 1-lot order amended {k} times (same quantity), then a 5-lot order; takers 6 then 1000"),
        orders: vec![std_order(1, 1, 5), std_order(2, 5, 9)],
        churn: vec![(1, 1, k, false)],
        takers: vec![6, 1000],
    });
    v.push(Scenario {
        name: format!("a 1-lot and a 2-lot order, the first amended {k} times and cancelled, then a 5-lot order; takers 3 then 1000"),
        orders: vec![std_order(1, 1, 5), std_order(3, 2, 6), std_order(2, 5, 9)],
        churn: vec![(2, 1, k, true)],
        takers: vec![3, 1000],
    });
    v.push(Scenario {
        name: "three orders, the oldest amended 9 000 times; takers 10, 7, 1000".into(),
        orders: vec![std_order(1, 10, 5), std_order(2, 7, 6), std_order(3, 5, 7)],
        churn: vec![(3, 1, 9_000, false)],
        takers: vec![10, 7, 1000],
    });
    if tier != "quick" {
        let n = 140_000u64;
        v.push(Scenario {
            name: format!("{n} one-lot orders; takers {} then {}", n / 2 + 1, n),
            orders: (0..n).map(|i| std_order(1000 + i, 1, 10 + i)).collect(),
            churn: vec![],
            takers: vec![n / 2 + 1, n],
        });
    }
    v
}

pub fn run(tier: &str) -> SweepOut {
    let mut out = SweepOut {
        scenarios: 0,
        maker_visits: 0,
        failures: vec![],
        samples: vec![],
    };
    for sc in scenarios(tier) {
        out.scenarios += 1;
        let name = sc.name.clone();
        let r = std::panic::catch_unwind(std::panic::AssertUnwindSafe(|| {
            let mut msgs: Vec<String> = vec![];
            let level = PriceLevel::new(LEVEL_PRICE);
            let generator = UuidGenerator::new(NS);
            let mut left: HashMap<u128, u128> = HashMap::new();
            let mut promised: u128 = 0;
            let mut cancelled = 0usize;
            let mut cancelled_total: u128 = 0;
            for (k, o) in sc.orders.iter().enumerate() {
                level.add_order(*o);
                left.insert(rec(o).id, o_tot(o));
                promised += executable(o);
                for (after, id, times, cancel) in &sc.churn {
                    if *after != k + 1 {
                        continue;
                    }
                    let Some(target) = sc.orders.iter().find(|x| same_id(o_id(x), oid(*id))) else { continue };
                    for _ in 0..*times {
                        let r = level.update_order(pricelevel::OrderUpdate::UpdateQuantity { order_id: oid(*id), new_quantity: o_vis(target) });
                        if !matches!(upd_obs(&r), UpdObs::Order(_)) {
                            msgs.push(format!("C07 a same-price amendment of resting order #{id} answered {:?}", upd_obs(&r)));
                            break;
                        }
                    }
                    if *cancel {
                        let r = level.update_order(pricelevel::OrderUpdate::Cancel { order_id: oid(*id) });
                        if !matches!(upd_obs(&r), UpdObs::Order(_)) {
                            msgs.push(format!("C07 the cancel of resting order #{id} answered {:?}", upd_obs(&r)));
                        }
                        left.remove(&rec(target).id);
                        promised -= executable(target);
                        cancelled += 1;
                        cancelled_total += o_tot(target);
                    }
                }
            }
            let mut visits = 0u64;
            // C11: a level restored from a snapshot taken now must trade like the original (churn scenarios: three
            // orders at most, full fills except for the last order, so no known queue deviation is involved)
            let restored = if sc.churn.is_empty() {
                None
            } else {
                pricelevel::verif_hooks::set_listing_permutation(Some(0));
                level.snapshot_to_json().ok().and_then(|t| PriceLevel::from_snapshot_json(&t).ok())
            };
            if !sc.churn.is_empty() && restored.is_none() {
                msgs.push("C10 the level could not be rebuilt from its own snapshot package".into());
            }
            let mut original_fills: Vec<Vec<(u128, u64)>> = vec![];
            let arrival: Vec<u128> = sc.orders.iter().map(|o| rec(o).id).collect();
            let mut first_visits: Vec<u128> = vec![];
            for q in &sc.takers {
                let displayed_before = level.visible_quantity() as u128;
                let res = level.match_order(*q, oid(900), &generator);
                let m = match_obs(&res);
                visits += m.fills.len() as u64;
                if !sc.churn.is_empty() {
                    original_fills.push(m.fills.clone());
                    for (mk, _) in &m.fills {
                        if !first_visits.contains(mk) {
                            first_visits.push(*mk);
                        }
                    }
                }
                if m.executed() + m.remaining as u128 != *q as u128 {
                    msgs.push(format!("C02 executed {} + remaining {} != requested {q}", m.executed(), m.remaining));
                }
                if m.complete != (m.remaining == 0) {
                    msgs.push(format!("C02 is_complete {} with remaining {}", m.complete, m.remaining));
                }
                let want = promised.min(*q as u128);
                if m.executed() != want {
                    msgs.push(format!(
                        "C06 executed {} but the resting orders could give min(requested {q}, {promised}) = {want} (displayed before the call: {displayed_before})",
                        m.executed()
                    ));
                }
                promised -= m.executed().min(promised);
                for (mk, qty) in &m.fills {
                    match left.get_mut(mk) {
                        None => msgs.push(format!("C02 a transaction names maker #{mk} which never rested")),
                        Some(l) => {
                            if (*qty as u128) > *l {
                                msgs.push(format!("C02 maker #{mk} traded {qty} although only {l} of what it brought was left (over-fill)"));
                                *l = 0;
                            } else {
                                *l -= *qty as u128;
                            }
                        }
                    }
                }
                let after = observe(&level);
                if let Err(e) = after.aggregates_consistent() {
                    msgs.push(format!("C01 after a taker of {q}: {e}"));
                }
                for o in &after.orders {
                    let id = rec(o).id;
                    if left.get(&id).copied().unwrap_or(0) != o_tot(o) {
                        msgs.push(format!(
                            "C02 {} rests with total {} but brought-minus-traded is {}",
                            short(o),
                            o_tot(o),
                            left.get(&id).copied().unwrap_or(0)
                        ));
                        break;
                    }
                }
                if m.remaining > 0 {
                    if let Some(o) = after.orders.iter().find(|o| o_vis(o) > 0) {
                        msgs.push(format!(
                            "C06 match returned with {} remaining although {} still displays quantity",
                            m.remaining,
                            short(o)
                        ));
                        msgs.push(format!(
                            "C05 an incoming quantity of {} faced {} and consumed nothing of it (the smaller of incoming and displayed quantity, {}, is what the rules give)",
                            m.remaining,
                            short(o),
                            m.remaining.min(o_vis(o))
                        ));
                    }
                }
                msgs.truncate(6);
            }
            if !sc.churn.is_empty() {
                // C04: plain orders, each added once, amended at the same price only: they trade in arrival order
                let expect: Vec<u128> = arrival.iter().copied().filter(|i| first_visits.contains(i)).collect();
                if first_visits != expect {
                    msgs.push(format!("C04 the orders arrived as {expect:?} but were first traded as {first_visits:?}"));
                }
                if let Some(r) = &restored {
                    let g2 = UuidGenerator::new(NS);
                    for (i, q) in sc.takers.iter().enumerate() {
                        let m = match_obs(&r.match_order(*q, oid(900), &g2));
                        if m.fills != original_fills[i] {
                            msgs.push(format!("C11 taker {q}: the original level traded {:?}, the level restored from its snapshot {:?}", original_fills[i], m.fills));
                            break;
                        }
                    }
                }
            }
            // C15: the statistics must agree with the transaction stream of these sweeps as well
            let st = level.stats();
            let executed: u128 = sc.orders.iter().map(|o| o_tot(o)).sum::<u128>() - cancelled_total - left.values().sum::<u128>();
            if st.orders_added() != sc.orders.len()
                || st.orders_removed() != cancelled
                || st.quantity_executed() as u128 != executed
                || st.value_executed() as u128 != executed * LEVEL_PRICE as u128
            {
                msgs.push(format!(
                    "C15 statistics (added={}, removed={}, qty={}, value={}) != events (added={}, removed={cancelled}, qty={executed}, value={})",
                    st.orders_added(), st.orders_removed(), st.quantity_executed(), st.value_executed(), sc.orders.len(), executed * LEVEL_PRICE as u128
                ));
            }
            (visits, msgs)
        }));
        match r {
            Ok((visits, msgs)) => {
                out.maker_visits += visits;
                for m in msgs {
                    out.failures.push(format!("long sweep [{name}]: {m}"));
                }
            }
            Err(_) => out.failures.push(format!("long sweep [{name}]: the library panicked")),
        }
        out.samples.push(json!({"long_sweep": name}));
    }
    out
}

/// C02 "a transaction id not issued before", for generators that have a long life behind them: the generator is
/// resumed (through its serde form) around every power of ten, at the 32 / 53 / 64-bit limits and at pairs of
/// counters that differ by 10^9, 10^10, 2^32; each resumed generator serves one match with two fills. All ids issued
/// for different counter values must differ (and equal the name-based id of their counter value).
pub fn generator_lifetimes() -> (u64, Vec<String>) {
    let mut starts: Vec<u64> = vec![0, 7];
    let mut p: u64 = 10;
    loop {
        starts.push(p - 1);
        if let Some(x) = p.checked_mul(3) {
            starts.push(x);
        }
        match p.checked_mul(10) {
            Some(x) => p = x,
            None => break,
        }
    }
    for base in [7u64, 2_000_000_000, 4_000_000_123] {
        for d in [1_000_000_000u64, 10_000_000_000, 1 << 32, 10_000_000_000_000_000_000] {
            if let Some(x) = base.checked_add(d) {
                starts.push(base);
                starts.push(x);
            }
        }
    }
    starts.extend([(1u64 << 32) - 1, (1u64 << 53) - 1, u64::MAX - 3]);
    starts.sort();
    starts.dedup();
    let mut issued: HashMap<uuid::Uuid, u64> = HashMap::new();
    let mut msgs = vec![];
    let mut n = 0u64;
    for st in starts {
        let j = format!("{{\"namespace\":\"{}\",\"counter\":{}}}", NS, st);
        let Ok(g) = serde_json::from_str::<UuidGenerator>(&j) else {
            msgs.push(format!("machinery: cannot resume a generator from {j}"));
            continue;
        };
        let level = PriceLevel::new(LEVEL_PRICE);
        level.add_order(std_order(1, 5, 5));
        level.add_order(std_order(2, 3, 6));
        let r = level.match_order(6, oid(900), &g);
        for (k, t) in r.transactions.as_vec().iter().enumerate() {
            n += 1;
            let counter = st.wrapping_add(k as u64);
            let want = uuid::Uuid::new_v5(&NS, counter.to_string().as_bytes());
            if t.transaction_id != want && msgs.len() < 6 {
                msgs.push(format!("C02 the fill served with generator counter {counter} carries transaction id {}, not the generator's id for that counter", t.transaction_id));
            }
            if let Some(prev) = issued.insert(t.transaction_id, counter) {
                if prev != counter && msgs.len() < 6 {
                    msgs.push(format!("C02 transaction id {} was issued before: for generator counter {prev} and again for counter {counter}", t.transaction_id));
                }
            }
        }
    }
    (n, msgs)
}

/// adds the long sweeps to a report, keeping only the findings that concern `prop`
pub fn add_to(report: &mut Report, prop: &str, tier: &str) {
    let o = run(tier);
    for f in &o.failures {
        if f.contains(&format!(": {prop} ")) || f.contains("panicked") {
            report.violation(f.clone(), json!({"engine": "sweep", "property": prop, "case": f}));
        }
    }
    if prop == "C02" {
        let (n, msgs) = generator_lifetimes();
        for m in msgs {
            report.violation(m.clone(), json!({"engine": "sweep", "property": prop, "case": m}));
        }
        report.add_cov_u64("transactions_with_resumed_generators", n);
    }
    report.add_cov_u64("long_sweep_scenarios", o.scenarios);
    report.add_cov_u64("long_sweep_maker_visits", o.maker_visits);
    report.add_cov_u64("evaluations", o.maker_visits);
    report.append_cov("samples", o.samples);
    report.concat_cov("rule", "long sweeps: single match calls visiting 7*10^4 .. 1.2*10^6 makers (many one-lot orders; an iceberg / reserve re-queued once per lot), checked with the accounting, exhaustion and aggregate predicates");
}
