//! Long sweeps: a handful of *large* configurations (one match call visiting 7*10^4 .. 1.2*10^6 makers) executed
//! directly on the real level. Per-call caps, visit budgets and counters hidden behind thresholds such as 2^16 or
//! 2^20 are out of reach of any alphabet of single-order letters; these scenarios are the scale points of the
//! same enumeration (like the macro letters of SC-bulk), checked with the predicates of C01 / C02 / C06.

use crate::common::*;
use crate::seq_level::NS;
use pricelevel::{OrderType, PriceLevel, Side, TimeInForce, UuidGenerator};
use serde_json::{Value, json};
use std::collections::HashMap;

pub struct SweepOut {
    pub scenarios: u64,
    pub maker_visits: u64,
    pub failures: Vec<String>,
    pub samples: Vec<Value>,
}

fn std_order(id: u64, q: u64, ts: u64) -> Ord_ {
    OrderType::Standard {
        id: oid(id),
        price: LEVEL_PRICE,
        quantity: q,
        side: Side::Buy,
        timestamp: ts,
        time_in_force: TimeInForce::Gtc,
        extra_fields: (),
    }
}

fn iceberg(id: u64, v: u64, h: u64) -> Ord_ {
    OrderType::IcebergOrder {
        id: oid(id),
        price: LEVEL_PRICE,
        visible_quantity: v,
        hidden_quantity: h,
        side: Side::Sell,
        timestamp: 5,
        time_in_force: TimeInForce::Gtc,
        extra_fields: (),
    }
}

fn reserve(id: u64, v: u64, h: u64, amt: u64) -> Ord_ {
    OrderType::ReserveOrder {
        id: oid(id),
        price: LEVEL_PRICE,
        visible_quantity: v,
        hidden_quantity: h,
        side: Side::Buy,
        timestamp: 6,
        time_in_force: TimeInForce::Gtc,
        replenish_threshold: 0,
        replenish_amount: Some(amt),
        auto_replenish: true,
        extra_fields: (),
    }
}

/// what a sufficiently large match can get out of an order (closed form; the orders used here always replenish > 0)
fn executable(o: &Ord_) -> u128 {
    let r = rec(o);
    match r.kind {
        1 => {
            if r.vis == 0 { 0 } else { r.vis as u128 + r.hid as u128 }
        }
        6 => {
            if r.p4 == 1 && r.p3 > 0 { r.vis as u128 + r.hid as u128 } else { r.vis as u128 }
        }
        _ => r.vis as u128,
    }
}

struct Scenario {
    name: String,
    orders: Vec<Ord_>,
    takers: Vec<u64>,
}

fn scenarios(tier: &str) -> Vec<Scenario> {
    let mut v = vec![];
    // many resting orders, one call sweeps them all and a bit of the last one
    let n = 66_000u64;
    let mut orders: Vec<Ord_> = (0..n).map(|i| std_order(1000 + i, 1, 10 + i)).collect();
    orders.push(std_order(999_999, 10, 10 + n));
    v.push(Scenario {
        name: format!("{n} one-lot orders followed by a ten-lot order; takers {} then 1000", n + 4),
        orders,
        takers: vec![n + 4, 1000],
    });
    // one order re-queued again and again
    v.push(Scenario {
        name: "iceberg 1 / 70 000 and a 5-lot order; takers 70 003 then 1000".into(),
        orders: vec![iceberg(1, 1, 70_000), std_order(2, 5, 9)],
        takers: vec![70_003, 1000],
    });
    v.push(Scenario {
        name: "reserve 1 / 70 000 (replenish 1) and a 5-lot order; takers 70 004 then 1000".into(),
        orders: vec![reserve(1, 1, 70_000, 1), std_order(2, 5, 9)],
        takers: vec![70_004, 1000],
    });
    v.push(Scenario {
        name: "iceberg 1 / 1 200 000; takers 1 200 000 then 1000".into(),
        orders: vec![iceberg(1, 1, 1_200_000)],
        takers: vec![1_200_000, 1000],
    });
    if tier != "quick" {
        let n = 140_000u64;
        v.push(Scenario {
            name: format!("{n} one-lot orders; takers {} then {}", n / 2 + 1, n),
            orders: (0..n).map(|i| std_order(1000 + i, 1, 10 + i)).collect(),
            takers: vec![n / 2 + 1, n],
        });
    }
    v
}

pub fn run(tier: &str) -> SweepOut {
    let mut out = SweepOut {
        scenarios: 0,
        maker_visits: 0,
        failures: vec![],
        samples: vec![],
    };
    for sc in scenarios(tier) {
        out.scenarios += 1;
        let name = sc.name.clone();
        let r = std::panic::catch_unwind(std::panic::AssertUnwindSafe(|| {
            let mut msgs: Vec<String> = vec![];
            let level = PriceLevel::new(LEVEL_PRICE);
            let generator = UuidGenerator::new(NS);
            let mut left: HashMap<u128, u128> = HashMap::new();
            let mut promised: u128 = 0;
            for o in &sc.orders {
                level.add_order(*o);
                left.insert(rec(o).id, o_tot(o));
                promised += executable(o);
            }
            let mut visits = 0u64;
            for q in &sc.takers {
                let displayed_before = level.visible_quantity() as u128;
                let res = level.match_order(*q, oid(900), &generator);
                let m = match_obs(&res);
                visits += m.fills.len() as u64;
                if m.executed() + m.remaining as u128 != *q as u128 {
                    msgs.push(format!("C02 executed {} + remaining {} != requested {q}", m.executed(), m.remaining));
                }
                if m.complete != (m.remaining == 0) {
                    msgs.push(format!("C02 is_complete {} with remaining {}", m.complete, m.remaining));
                }
                let want = promised.min(*q as u128);
                if m.executed() != want {
                    msgs.push(format!(
                        "C06 executed {} but the resting orders could give min(requested {q}, {promised}) = {want} (displayed before the call: {displayed_before})",
                        m.executed()
                    ));
                }
                promised -= m.executed().min(promised);
                for (mk, qty) in &m.fills {
                    match left.get_mut(mk) {
                        None => msgs.push(format!("C02 a transaction names maker #{mk} which never rested")),
                        Some(l) => {
                            if (*qty as u128) > *l {
                                msgs.push(format!("C02 maker #{mk} traded {qty} although only {l} of what it brought was left (over-fill)"));
                                *l = 0;
                            } else {
                                *l -= *qty as u128;
                            }
                        }
                    }
                }
                let after = observe(&level);
                if let Err(e) = after.aggregates_consistent() {
                    msgs.push(format!("C01 after a taker of {q}: {e}"));
                }
                for o in &after.orders {
                    let id = rec(o).id;
                    if left.get(&id).copied().unwrap_or(0) != o_tot(o) {
                        msgs.push(format!(
                            "C02 {} rests with total {} but brought-minus-traded is {}",
                            short(o),
                            o_tot(o),
                            left.get(&id).copied().unwrap_or(0)
                        ));
                        break;
                    }
                }
                if m.remaining > 0 {
                    if let Some(o) = after.orders.iter().find(|o| o_vis(o) > 0) {
                        msgs.push(format!(
                            "C06 match returned with {} remaining although {} still displays quantity",
                            m.remaining,
                            short(o)
                        ));
                    }
                }
                msgs.truncate(6);
            }
            // C15: the statistics must agree with the transaction stream of these sweeps as well
            let st = level.stats();
            let executed: u128 = sc.orders.iter().map(|o| o_tot(o)).sum::<u128>() - left.values().sum::<u128>();
            if st.orders_added() != sc.orders.len()
                || st.orders_removed() != 0
                || st.quantity_executed() as u128 != executed
                || st.value_executed() as u128 != executed * LEVEL_PRICE as u128
            {
                msgs.push(format!(
                    "C15 statistics (added={}, removed={}, qty={}, value={}) != events (added={}, removed=0, qty={executed}, value={})",
                    st.orders_added(), st.orders_removed(), st.quantity_executed(), st.value_executed(), sc.orders.len(), executed * LEVEL_PRICE as u128
                ));
            }
            (visits, msgs)
        }));
        match r {
            Ok((visits, msgs)) => {
                out.maker_visits += visits;
                for m in msgs {
                    out.failures.push(format!("long sweep [{name}]: {m}"));
                }
            }
            Err(_) => out.failures.push(format!("long sweep [{name}]: the library panicked")),
        }
        out.samples.push(json!({"long_sweep": name}));
    }
    out
}

/// adds the long sweeps to a report, keeping only the findings that concern `prop`
pub fn add_to(report: &mut Report, prop: &str, tier: &str) {
    let o = run(tier);
    for f in &o.failures {
        if f.contains(&format!(": {prop} ")) || f.contains("panicked") {
            report.violation(f.clone(), json!({"engine": "sweep", "property": prop, "case": f}));
        }
    }
    report.add_cov_u64("long_sweep_scenarios", o.scenarios);
    report.add_cov_u64("long_sweep_maker_visits", o.maker_visits);
    report.add_cov_u64("evaluations", o.maker_visits);
    report.append_cov("samples", o.samples);
    report.concat_cov("rule", "long sweeps: single match calls visiting 7*10^4 .. 1.2*10^6 makers (many one-lot orders; an iceberg / reserve re-queued once per lot), checked with the accounting, exhaustion and aggregate predicates");
}
