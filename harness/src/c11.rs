//! C11: a level restored from a snapshot trades like the original.
//! Differential, on the real code only: original O (replayed), restored R (each snapshot path, each
//! permutation of the pre-sort listing), and F = a fresh level to which the listed orders are added in
//! listed order. For every continuation of length <= 2 plus a draining match:
//!   R must equal F (restore = re-queue the listed orders in listed order), and
//!   O must equal R unless an open known finding explains the difference:
//!     restore_in_timestamp_order  - O's queue order is not the strict timestamp order the snapshot lists
//!     stale_ticket_keeps_position - O's ticket queue holds stale / duplicate tickets (KF2), which a restore drops

use crate::common::*;
use crate::rec::{BudgetOrPanic, Recorder};
use crate::seq_level::*;
use pricelevel::{PriceLevel, UuidGenerator};

pub const SNAP_PATHS: [Path; 4] = [
    Path::FromSnapshot,
    Path::FromRef,
    Path::Package,
    Path::SnapJson,
];

fn apply_on(
    cfg: &LevelCfg,
    rec: &Recorder,
    level: &PriceLevel,
    generator: &UuidGenerator,
    op: &Op,
) -> ImplRes {
    match op {
        Op::Match(q) => {
            match rec.with_budget(CALL_BUDGET + 200_000, || level.match_order(*q, oid(cfg.taker), generator)) {
                Ok(mr) => ImplRes::Matched(match_obs(&mr)),
                Err(BudgetOrPanic::Budget) => ImplRes::NoReturn,
                Err(BudgetOrPanic::Panic(m)) => ImplRes::Panicked(m),
            }
        }
        Op::Upd(k, id) => {
            let u = cfg.update_of(*k, *id);
            match rec.with_budget(CALL_BUDGET + 200_000, || level.update_order(u)) {
                Ok(r) => ImplRes::Updated(upd_obs(&r)),
                Err(BudgetOrPanic::Budget) => ImplRes::NoReturn,
                Err(BudgetOrPanic::Panic(m)) => ImplRes::Panicked(m),
            }
        }
        _ => ImplRes::Added,
    }
}

fn transcript(
    cfg: &LevelCfg,
    rec: &Recorder,
    level: &PriceLevel,
    cont: &[Op],
) -> Vec<ImplRes> {
    let generator = UuidGenerator::new(NS);
    let mut t: Vec<ImplRes> = cont
        .iter()
        .map(|c| apply_on(cfg, rec, level, &generator, c))
        .collect();
    t.push(apply_on(cfg, rec, level, &generator, &Op::Match(DRAIN_QTY)));
    t
}

pub fn continuations(ids: &[u64]) -> Vec<Vec<Op>> {
    let mut letters = vec![Op::Match(1), Op::Match(2), Op::Match(4), Op::Match(1000)];
    for id in ids {
        letters.push(Op::Upd(UpdKind::Cancel, *id));
    }
    let mut out = vec![vec![]];
    for a in &letters {
        out.push(vec![*a]);
    }
    for a in &letters {
        for b in &letters {
            out.push(vec![*a, *b]);
        }
    }
    out
}

fn describe(t: &[ImplRes]) -> String {
    t.iter().map(|r| r.describe()).collect::<Vec<_>>().join(" ; ")
}

pub struct C11Out {
    pub extra: u64,
    pub violations: Vec<String>,
    pub known: Vec<(String, String)>,
}

pub fn check_state(subj: &LevelSubject, rcd: &Recorder, hist: &[u16], op: &Op, e: &Exec) -> C11Out {
    use pricelevel::verif_hooks::set_listing_permutation;
    let cfg = &subj.cfg;
    let mut out = C11Out {
        extra: 0,
        violations: vec![],
        known: vec![],
    };
    let n = e.post.orders.len();
    let ids: Vec<u64> = (1..=3).collect();
    let conts = continuations(&ids);

    // classification inputs from the original's ticket mirror
    let resting: Vec<u128> = e.post.orders.iter().map(|o| rec(o).id).collect();
    let mut effective: Vec<u128> = vec![];
    let mut clean = true;
    for t in &e.tickets {
        if !resting.contains(t) || effective.contains(t) {
            clean = false;
        } else {
            effective.push(*t);
        }
    }
    let ts_of = |id: u128| {
        e.post
            .orders
            .iter()
            .find(|o| rec(o).id == id)
            .map(|o| rec(o).ts)
            .unwrap_or(0)
    };
    let ts_consistent = effective.windows(2).all(|w| ts_of(w[0]) < ts_of(w[1]));

    // original: one replay per continuation
    let mut t_o: Vec<Vec<ImplRes>> = vec![];
    for c in &conts {
        let mut run = Run::new(cfg, rcd, 0, false);
        for h in hist {
            let _ = run.apply(&cfg.ops[*h as usize]);
        }
        let _ = run.apply(op);
        let generator = UuidGenerator::new(NS);
        let mut t: Vec<ImplRes> = c
            .iter()
            .map(|x| apply_on(cfg, rcd, &run.level, &generator, x))
            .collect();
        t.push(apply_on(cfg, rcd, &run.level, &generator, &Op::Match(DRAIN_QTY)));
        out.extra += hist.len() as u64 + 2 + c.len() as u64;
        t_o.push(t);
    }

    // what the known-deviation model (the implementation's own queue discipline: KF1 + KF2) predicts for
    // the original: a difference between original and restored is attributed to a known finding only
    // if the original behaves exactly as those mechanisms say
    // one prediction per model variant that has agreed with the implementation along this history
    let model_ts: Vec<Vec<Vec<ImplRes>>> = e
        .model_after
        .iter()
        .zip(e.mres.iter())
        .filter(|(m, r)| m.is_some() && r.as_ref() == Some(&e.res))
        .filter_map(|(m, _)| m.as_ref())
        .filter(|m| same_orders(&m.canonical_orders(), &e.post.orders))
        .map(|m0| {
            conts
                .iter()
                .map(|c| {
                    let mut m = m0.clone();
                    let mut t: Vec<ImplRes> = c
                        .iter()
                        .map(|x| match x {
                            Op::Match(q) => ImplRes::Matched(m.do_match(*q)),
                            Op::Upd(k, id) => ImplRes::Updated(m.update(&cfg.update_of(*k, *id))),
                            _ => ImplRes::Added,
                        })
                        .collect();
                    t.push(ImplRes::Matched(m.do_match(DRAIN_QTY)));
                    t
                })
                .collect()
        })
        .collect();

    // the snapshot source
    let src = subj.exec(rcd, hist, op, 0, false, true);
    let Some(level) = src.level_for_rebuild.as_ref() else {
        return out;
    };
    let nperm = (1..=n.min(8)).product::<usize>().max(1).min(24);
    let mut seen_listings: Vec<Vec<u128>> = vec![];
    for p in 0..nperm {
        set_listing_permutation(Some(p));
        let listing: Vec<Ord_> = level.iter_orders().iter().map(|o| **o).collect();
        let lids: Vec<u128> = listing.iter().map(|o| rec(o).id).collect();
        if seen_listings.contains(&lids) {
            continue;
        }
        seen_listings.push(lids.clone());
        for (ci, c) in conts.iter().enumerate() {
            // F: fresh level, listed orders added in listed order
            let f = PriceLevel::new(cfg.price);
            for o in &listing {
                f.add_order(*o);
            }
            let t_f = transcript(cfg, rcd, &f, c);
            out.extra += (n + c.len() + 1) as u64;
            for path in SNAP_PATHS {
                set_listing_permutation(Some(p));
                let r = match rebuild_via(level, path) {
                    Ok(r) => r,
                    Err(m) => {
                        out.violations
                            .push(format!("C11 {path:?}: restoring a quiescent level failed: {m}"));
                        continue;
                    }
                };
                set_listing_permutation(Some(0));
                let t_r = transcript(cfg, rcd, &r, c);
                out.extra += (1 + c.len() + 1) as u64;
                let cname = c.iter().map(|x| cfg.op_name(x)).collect::<Vec<_>>().join("; ");
                if t_r != t_f {
                    if out.violations.len() < 5 {
                        out.violations.push(format!(
                            "C11 {path:?} (listing {lids:?}): the restored level does not trade like a level holding the listed orders in listed order; continuation [{cname}; drain]: restored [{}] / re-added [{}]",
                            describe(&t_r), describe(&t_f)));
                    }
                    continue;
                }
                if t_r != t_o[ci] {
                    let msg = format!(
                        "{path:?}: state {} queue order {:?} (tickets {:?}), snapshot listing {lids:?}; continuation [{cname}; drain]: original [{}] / restored [{}]",
                        e.post.describe(), effective, e.tickets, describe(&t_o[ci]), describe(&t_r));
                    let explained = model_ts.iter().any(|mt| mt[ci] == t_o[ci]);
                    if !explained {
                        if out.violations.len() < 5 {
                            out.violations.push(format!(
                                "C11 original and restored level trade differently and the original does not behave as the known queue mechanisms (KF1/KF2) predict: {msg}; predicted for the original [{}]",
                                model_ts.iter().map(|mt| describe(&mt[ci])).collect::<Vec<_>>().join(" || ")));
                        }
                    } else if clean && ts_consistent {
                        if out.violations.len() < 5 {
                            out.violations.push(format!(
                                "C11 restored level trades differently although the original's queue order equals the strict timestamp order: {msg}"));
                        }
                    } else {
                        let sig = if !ts_consistent {
                            "restore_in_timestamp_order"
                        } else {
                            "stale_ticket_keeps_position"
                        };
                        if cfg.known.is_open("C11", sig) {
                            if !out.known.iter().any(|k| k.0 == sig) {
                                out.known.push((sig.to_string(), msg));
                            }
                        } else if out.violations.len() < 5 {
                            out.violations.push(format!("C11 {sig} (not an open known finding): {msg}"));
                        }
                    }
                }
            }
        }
    }
    set_listing_permutation(Some(0));
    out
}
