mod c11;
mod c19;
mod clock;
mod common;
mod conc;
mod conc_checks;
mod faults;
mod grid;
mod model;
mod rec;
mod seq_checks;
mod seq_level;
mod sched;
mod seqmc;
mod sweeps;

fn usage() -> ! {
    eprintln!("usage: plverif <C01..C19> <quick|thorough> | plverif replay <file>");
    std::process::exit(2)
}

fn main() {
    rec::install_quiet_panic_hook();
    let args: Vec<String> = std::env::args().collect();
    if args.len() < 3 {
        usage();
    }
    {
        // hard wall limit: a check that does not finish is a machinery failure, never a verdict
        let thorough = args.get(2).map(|t| t == "thorough").unwrap_or(false);
        let limit = std::env::var("VERIF_HARD_LIMIT_S")
            .ok()
            .and_then(|s| s.parse::<u64>().ok())
            .unwrap_or(if thorough { 7200 } else { 600 });
        std::thread::spawn(move || {
            std::thread::sleep(std::time::Duration::from_secs(limit));
            println!("MACHINERY-ERROR: the check did not finish within its hard wall limit of {limit} s (possibly a non-terminating call outside a step budget)");
            std::process::exit(2);
        });
    }
    let code = match args[1].as_str() {
        "validate-sched" => conc_checks::validate_scheduler(args[2].parse().unwrap_or(2000)),
        "C18-one" => faults::run_c18_one(&args[2], args.get(3).map(|s| s.as_str()).unwrap_or("")),
        "replay" => {
            let doc: serde_json::Value = std::fs::read_to_string(&args[2])
                .ok()
                .and_then(|t| serde_json::from_str(&t).ok())
                .unwrap_or(serde_json::Value::Null);
            match doc["replay"]["engine"].as_str() {
                Some("sched") => conc_checks::replay(&doc),
                Some("faults") | Some("grid") => faults::replay(&doc),
                _ => seq_checks::replay(&args[2]),
            }
        }
        p => {
            let tier = args[2].as_str();
            if tier != "quick" && tier != "thorough" {
                usage();
            }
            match p {
                "C15" => {
                    let mut r = common::Report::new(p, tier, "model_checking");
                    seq_checks::run_into(&mut r, p, tier, 0.5);
                    conc_checks::run_into(&mut r, p, tier, 0.5);
                    sweeps::add_to(&mut r, p, tier);
                    r.finish()
                }
                "C02" => {
                    let mut r = common::Report::new(p, tier, "model_checking");
                    seq_checks::run_into(&mut r, p, tier, 1.0);
                    let t = grid::c02_builder();
                    for f in &t.failures {
                        r.violation(
                            f.clone(),
                            serde_json::json!({"engine": "grid", "property": "C02", "case": f}),
                        );
                    }
                    r.add_cov_u64("evaluations", t.evaluations);
                    r.add_cov_u64("match_result_builder_sequences", t.evaluations);
                    r.append_cov("samples", t.samples.clone());
                    sweeps::add_to(&mut r, p, tier);
                    r.concat_cov("rule", "engine G: every sequence of <= 4 transactions with quantities in {0,1,2,3,MAX} (carrying the result's own taker id; <= 3 carrying an unrelated id or the other-format twin) appended to MatchResult::new(id, q), q in {0..6,MAX}, sum <= q: remaining = q - sum, is_complete <=> remaining = 0, executed_quantity = sum");
                    r.finish()
                }
                "C01" | "C06" | "C04" | "C07" | "C10" | "C11" => {
                    let mut r = common::Report::new(p, tier, "model_checking");
                    seq_checks::run_into(&mut r, p, tier, 1.0);
                    sweeps::add_to(&mut r, p, tier);
                    r.finish()
                }
                "C19" => c19::run(tier),
                "C05" => grid::run_c05(tier),
                "C16" => grid::run_c16(tier),
                "C17" => grid::run_c17(tier),
                "C18" => {
                    if args.iter().any(|a| a == "--worker") {
                        faults::run_c18(tier)
                    } else {
                        faults::run_c18_isolated(tier)
                    }
                }
                "C09" => faults::run_c09(tier),
                "C03" | "C08" | "C12" | "C13" | "C14" => conc_checks::run(p, tier),
                _ => {
                    eprintln!("unknown property {p}");
                    2
                }
            }
        }
    };
    std::process::exit(code);
}
