mod c11;
mod c19;
mod common;
mod model;
mod rec;
mod seq_checks;
mod seq_level;
mod seqmc;

fn usage() -> ! {
    eprintln!("usage: plverif <C01..C19> <quick|thorough> | plverif replay <file>");
    std::process::exit(2)
}

fn main() {
    rec::install_quiet_panic_hook();
    let args: Vec<String> = std::env::args().collect();
    if args.len() < 3 {
        usage();
    }
    let code = match args[1].as_str() {
        "replay" => seq_checks::replay(&args[2]),
        p => {
            let tier = args[2].as_str();
            if tier != "quick" && tier != "thorough" {
                usage();
            }
            match p {
                "C01" | "C02" | "C04" | "C06" | "C07" | "C10" | "C11" | "C15" => {
                    seq_checks::run(p, tier)
                }
                "C19" => c19::run(tier),
                _ => {
                    eprintln!("unknown property {p}");
                    2
                }
            }
        }
    };
    std::process::exit(code);
}
