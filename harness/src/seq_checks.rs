//! Property checks served by engine S on the level subject: configuration (alphabets, bounds),
//! reporting and replay.

use crate::common::*;
use crate::rec::Recorder;
use crate::seq_level::*;
use crate::seqmc::{BfsConfig, Subject, bfs};
use pricelevel::OrderType;
use serde_json::{Value, json};
use std::time::Duration;

fn tmpl_named(ts: &[Tmpl], price: u64) -> Vec<(String, Ord_)> {
    ts.iter()
        .map(|t| (format!("{t:?}"), mk_ts(*t, 0, price, 0)))
        .collect()
}

fn adds(ids: &[u64], ntmpl: usize) -> Vec<Op> {
    let mut v = vec![];
    for id in ids {
        for t in 0..ntmpl {
            v.push(Op::Add(*id, t));
        }
    }
    v
}

fn upds(ids: &[u64], kinds: &[UpdKind]) -> Vec<Op> {
    let mut v = vec![];
    for id in ids {
        for k in kinds {
            v.push(Op::Upd(*k, *id));
        }
    }
    v
}

fn matches(qs: &[u64]) -> Vec<Op> {
    qs.iter().map(|q| Op::Match(*q)).collect()
}

const ALL_UPD: [UpdKind; 10] = [
    UpdKind::Cancel,
    UpdKind::Move,
    UpdKind::RepriceSame,
    UpdKind::Amend(0),
    UpdKind::Amend(1),
    UpdKind::Amend(6),
    UpdKind::PqSame(1),
    UpdKind::PqMove(1),
    UpdKind::ReplaceSame(6),
    UpdKind::ReplaceMove(6),
];

pub struct Plan {
    pub cfg: LevelCfg,
    pub depth: usize,
}

fn base_cfg(prop: &str, name: &str, price: u64, templates: Vec<(String, Ord_)>) -> LevelCfg {
    LevelCfg {
        prop: prop.to_string(),
        name: name.to_string(),
        price,
        templates,
        ops: vec![],
        absent_ops: false,
        check: Checks::default(),
        stats_in_key: false,
        variants: vec![],
        known: KnownFindings::load(),
        max_orders: 3,
        clock_step_ms: None,
        taker: TAKER,
    }
}

/// SC-types: two ids, all fourteen templates, all update kinds
fn sc_types(prop: &str, restore: &[Path]) -> LevelCfg {
    let mut c = base_cfg(prop, "SC-types", LEVEL_PRICE, tmpl_named(&ALL_TMPL, LEVEL_PRICE));
    c.ops = adds(&[1, 2], ALL_TMPL.len());
    c.ops.extend(matches(&[1, 2, 4, 7, 1000]));
    c.ops.extend(upds(&[1, 2], &ALL_UPD));
    c.ops.extend(restore.iter().map(|p| Op::Restore(*p)));
    c
}

/// SC-order: three ids, four templates, priority-relevant operations (29 letters)
fn sc_order(prop: &str) -> LevelCfg {
    let ts = [Tmpl::S5, Tmpl::IC23, Tmpl::RSa, Tmpl::PG5];
    let mut c = base_cfg(prop, "SC-order", LEVEL_PRICE, tmpl_named(&ts, LEVEL_PRICE));
    c.ops = adds(&[1, 2, 3], ts.len());
    c.ops.extend(upds(
        &[1, 2, 3],
        &[UpdKind::Cancel, UpdKind::Amend(1), UpdKind::Amend(6)],
    ));
    c.ops.extend(matches(&[1, 2, 4, 7, 1000]));
    c
}

/// SC-reuse: a tiny alphabet explored deep - two ids that come and go (cancel, match on an emptied level, re-add
/// under the same id): long add / cancel / re-add chains that the wider alphabets cannot reach in depth
fn sc_reuse(prop: &str) -> LevelCfg {
    let ts = [Tmpl::S5];
    let mut c = base_cfg(prop, "SC-reuse", LEVEL_PRICE, tmpl_named(&ts, LEVEL_PRICE));
    c.ops = adds(&[1, 2], ts.len());
    c.ops.extend(upds(&[1, 2], &[UpdKind::Cancel]));
    c.ops.extend(matches(&[2, 1000]));
    c.absent_ops = false;
    c
}

/// SC-zero: zero displays, zero replenish amounts
fn sc_zero(prop: &str) -> LevelCfg {
    let ts = [
        Tmpl::S0,
        Tmpl::S3,
        Tmpl::IC02,
        Tmpl::IC23,
        Tmpl::RS0,
        Tmpl::RSa,
        Tmpl::RSh,
    ];
    let mut c = base_cfg(prop, "SC-zero", LEVEL_PRICE, tmpl_named(&ts, LEVEL_PRICE));
    c.ops = adds(&[1, 2], ts.len());
    c.ops.extend(upds(
        &[1, 2],
        &[UpdKind::Cancel, UpdKind::Amend(0), UpdKind::Amend(1)],
    ));
    c.ops.extend(matches(&[1, 4, 1000]));
    c
}

/// SC-twin: two ids of different formats (UUID #1, ULID #4) that share their 16 bytes, plus #2
fn sc_twin(prop: &str) -> LevelCfg {
    let ts = [Tmpl::S5, Tmpl::IC23, Tmpl::RSa];
    let mut c = base_cfg(prop, "SC-twin", LEVEL_PRICE, tmpl_named(&ts, LEVEL_PRICE));
    c.ops = adds(&[1, 4, 2], ts.len());
    c.ops.extend(upds(
        &[1, 4, 2],
        &[UpdKind::Cancel, UpdKind::Amend(1), UpdKind::Move],
    ));
    c.ops.extend(matches(&[1, 4, 1000]));
    c
}

/// SC-wide: four ids (up to four resting orders), two templates, few letters
fn sc_wide(prop: &str) -> LevelCfg {
    let ts = [Tmpl::S5, Tmpl::IC23];
    let mut c = base_cfg(prop, "SC-wide", LEVEL_PRICE, tmpl_named(&ts, LEVEL_PRICE));
    c.max_orders = 4;
    c.ops = adds(&[1, 2, 3, 5], ts.len());
    c.ops.extend(upds(&[1, 2, 3, 5], &[UpdKind::Cancel, UpdKind::Amend(1)]));
    c.ops.extend(matches(&[2, 7, 1000]));
    c
}

/// SC-bulk: macro letters that reach *large* configurations in one transition: 8 / 70 resting orders,
/// 36 cancels in a row, 40 amendments of one order (thresholds such as 8, 16, 32, 64 hide behind these)
fn sc_bulk(prop: &str) -> LevelCfg {
    let ts = [Tmpl::S5, Tmpl::IC23];
    let mut c = base_cfg(prop, "SC-bulk", LEVEL_PRICE, tmpl_named(&ts, LEVEL_PRICE));
    c.max_orders = 4;
    c.ops = vec![
        Op::BulkAdd(8),
        Op::BulkAdd(70),
        Op::BulkCancel(36),
        Op::BulkCancel(5),
        Op::BulkDormant(130),
        Op::Churn(1, 40),
        Op::Add(1, 0),
        Op::Add(2, 1),
        Op::Upd(UpdKind::Cancel, 1),
        Op::Upd(UpdKind::Amend(1), 2),
        Op::Upd(UpdKind::Amend(6), 1),
        Op::Match(1),
        Op::Match(25),
        Op::Match(1000),
    ];
    c
}

/// SC-realts: timestamps as they occur in practice - epoch seconds next to epoch milliseconds, and values around
/// 10^11 where the two conventions meet (pinned per template; order ids are free)
fn sc_realts(prop: &str) -> LevelCfg {
    let mk = |ts: u64, q: u64| mk_ts(if q == 5 { Tmpl::S5 } else { Tmpl::IC23 }, 0, LEVEL_PRICE, ts);
    let templates = vec![
        ("S5@1700000000s".to_string(), mk(1_700_000_000, 5)),
        ("S5@1616823000000ms".to_string(), mk(1_616_823_000_000, 5)),
        ("IC23@1616823000001ms".to_string(), mk(1_616_823_000_001, 2)),
        ("S5@99999995000".to_string(), mk(99_999_995_000, 5)),
        ("IC23@100000005000".to_string(), mk(100_000_005_000, 2)),
        // other time units next to each other: a later millisecond stamp, microseconds, nanoseconds (also: stamps
        // that lie in the future of any millisecond clock)
        ("S5@1800000000000ms".to_string(), mk(1_800_000_000_000, 5)),
        ("IC23@1700000000000000us".to_string(), mk(1_700_000_000_000_000, 2)),
        ("S5@1700000000000000000ns".to_string(), mk(1_700_000_000_000_000_000, 5)),
    ];
    let mut c = base_cfg(prop, "SC-realts", LEVEL_PRICE, templates);
    c.ops = adds(&[1, 2, 3], 8);
    c.ops.extend(upds(&[1, 2, 3], &[UpdKind::Cancel]));
    c.ops.extend(matches(&[2, 7, 1000]));
    c
}

/// SC-churn: macro letters that leave more than 1024 / 4096 stale tickets behind (1100 / 4200 same-price amendments of
/// one order, 1019 / 4200 add-and-cancel quotes) next to three ordinary orders
fn sc_churn(prop: &str) -> LevelCfg {
    let ts = [Tmpl::S5, Tmpl::IC23];
    let mut c = base_cfg(prop, "SC-churn", LEVEL_PRICE, tmpl_named(&ts, LEVEL_PRICE));
    c.ops = vec![
        Op::Churn(1, 1100),
        Op::Churn(2, 4200),
        Op::Quotes(1019),
        Op::Quotes(4200),
        Op::Add(1, 0),
        Op::Add(2, 1),
        Op::Add(3, 0),
        Op::Upd(UpdKind::Amend(6), 1),
        Op::Upd(UpdKind::Cancel, 3),
        Op::Match(1),
        Op::Match(1000),
    ];
    c
}

/// SC-edge: quantities at the 64-bit limits on a level of price 1
fn sc_edge(prop: &str) -> LevelCfg {
    let m = u64::MAX;
    let id = oid(0);
    let price = 1;
    let side = pricelevel::Side::Buy;
    let tif = pricelevel::TimeInForce::Gtc;
    let std = |q: u64| OrderType::Standard {
        id,
        price,
        quantity: q,
        side,
        timestamp: 0,
        time_in_force: tif,
        extra_fields: (),
    };
    let ice = |v: u64, h: u64| OrderType::IcebergOrder {
        id,
        price,
        visible_quantity: v,
        hidden_quantity: h,
        side,
        timestamp: 0,
        time_in_force: tif,
        extra_fields: (),
    };
    let res = |v: u64, h: u64, amt: Option<u64>, auto: bool| OrderType::ReserveOrder {
        id,
        price,
        visible_quantity: v,
        hidden_quantity: h,
        side,
        timestamp: 0,
        time_in_force: tif,
        replenish_threshold: m,
        replenish_amount: amt,
        auto_replenish: auto,
        extra_fields: (),
    };
    let templates = vec![
        ("S(max)".to_string(), std(m)),
        ("S(max-1)".to_string(), std(m - 1)),
        ("S(1)".to_string(), std(1)),
        ("IC(max/2+1,max/2)".to_string(), ice(m / 2 + 1, m / 2)),
        ("IC(max-2,2)".to_string(), ice(m - 2, 2)),
        (
            "RS(2,max-2,amtmax,auto)".to_string(),
            res(2, m - 2, Some(m), true),
        ),
        (
            "RS(1,max-1,amtmax-5,auto)".to_string(),
            res(1, m - 1, Some(m - 5), true),
        ),
        ("RS(max-3,3,amt1,manual)".to_string(), res(m - 3, 3, Some(1), false)),
    ];
    let mut c = base_cfg(prop, "SC-edge", price, templates);
    // one order at a time so that the level's sums stay within 64 bits (the stated precondition),
    // except for S(1) next to S(max-1)
    c.max_orders = 1;
    c.ops = adds(&[1], 8);
    c.ops.extend(upds(
        &[1],
        &[UpdKind::Cancel, UpdKind::Amend(m / 2), UpdKind::Amend(0), UpdKind::Move],
    ));
    c.ops.extend(matches(&[1, 2, m - 1, m]));
    c
}

/// the plans of a property, plus one of them again under a virtual clock that jumps 1.5 s at every reading
/// (time-driven behaviour - periodic housekeeping, ageing - becomes part of every explored history)
pub fn plans(prop: &str, tier: &str) -> Vec<Plan> {
    let mut v = plans_base(prop, tier);
    let pick = ["SC-types", "SC-order", "SC-zero"]
        .iter()
        .find_map(|n| v.iter().find(|p| p.cfg.name == *n))
        .map(|p| Plan { cfg: p.cfg.clone(), depth: p.depth });
    if let Some(mut p) = pick {
        p.cfg.name = format!("{} under a clock advancing 1.5 s per reading", p.cfg.name);
        p.cfg.clock_step_ms = Some(1500);
        if tier == "quick" {
            // C11 restores every state through four paths and all continuations: one level less
            p.depth = p.depth.min(if prop == "C11" { 3 } else { 4 });
        } else {
            p.depth = p.depth.saturating_sub(1).max(4);
        }
        v.push(p);
    }
    // ... and once with an incoming side whose id equals that of resting order #1 (the taker id is a label only)
    let pick = ["SC-order", "SC-types", "SC-zero"]
        .iter()
        .find_map(|n| v.iter().find(|p| p.cfg.name == *n))
        .map(|p| Plan { cfg: p.cfg.clone(), depth: p.depth });
    if let Some(mut p) = pick {
        p.cfg.name = format!("{} with the taker carrying the id of resting order #1", p.cfg.name);
        p.cfg.taker = 1;
        if tier == "quick" {
            // C11 restores every state through four paths and all continuations: one level less
            p.depth = p.depth.min(if prop == "C11" { 3 } else { 4 });
        } else {
            p.depth = p.depth.saturating_sub(1).max(4);
        }
        v.push(p);
    }
    v
}

fn plans_base(prop: &str, tier: &str) -> Vec<Plan> {
    let quick = tier == "quick";
    let d = |q: usize, t: usize| if quick { q } else { t };
    match prop {
        "C01" => {
            let mut a = sc_types(prop, &ALL_PATHS);
            a.check.c01 = true;
            let mut z = sc_zero(prop);
            z.check.c01 = true;
            z.ops.extend(ALL_PATHS.iter().map(|p| Op::Restore(*p)));
            let mut e = sc_edge(prop);
            e.check.c01 = true;
            e.ops.extend([Op::Restore(Path::SnapJson), Op::Restore(Path::Text)]);
            let mut w = sc_twin(prop);
            w.check.c01 = true;
            w.ops.extend([Op::Restore(Path::SnapJson), Op::Restore(Path::Text), Op::Restore(Path::Serde)]);
            vec![
                Plan { cfg: a, depth: d(4, 7) },
                Plan { cfg: z, depth: d(6, 12) },
                Plan { cfg: e, depth: d(5, 10) },
                Plan { cfg: w, depth: d(4, 8) },
                Plan { cfg: { let mut x = sc_wide(prop); x.check.c01 = true; x }, depth: d(6, 8) },
                Plan { cfg: { let mut x = sc_churn(prop); x.check.c01 = true; x }, depth: d(4, 5) },
                Plan {
                    cfg: {
                        let mut x = sc_bulk(prop);
                        x.check.c01 = true;
                        x.ops.extend([Op::Restore(Path::FromSnapshot), Op::Restore(Path::SnapJson), Op::Restore(Path::Text)]);
                        x
                    },
                    depth: d(6, 7),
                },
            ]
        }
        "C02" => {
            let mut a = sc_types(prop, &[]);
            a.check.c02 = true;
            // a template whose own price differs from the level's: "the level's price" must be used
            a.templates.push(("SX5".into(), mk_ts(Tmpl::SX5, 0, LEVEL_PRICE, 0)));
            let n = a.templates.len() - 1;
            a.ops.push(Op::Add(1, n));
            a.ops.push(Op::Add(2, n));
            let mut o = sc_order(prop);
            o.check.c02 = true;
            let mut z = sc_zero(prop);
            z.check.c02 = true;
            let mut e = sc_edge(prop);
            e.check.c02 = true;
            vec![
                Plan { cfg: a, depth: d(4, 6) },
                Plan { cfg: o, depth: d(6, 8) },
                Plan { cfg: z, depth: d(6, 11) },
                Plan { cfg: e, depth: d(5, 10) },
            ]
        }
        "C04" => {
            let mut o = sc_order(prop);
            o.check.c04 = true;
            o.check.drain = true;
            o.variants = vec![(false, false), (true, false), (false, true), (true, true)];
            // all template types, two ids, with moves and re-adds
            let mut a = sc_types(prop, &[]);
            a.check.c04 = true;
            a.check.drain = true;
            a.variants = vec![(false, false), (true, false), (false, true), (true, true)];
            // zero-display orders are outside C04's statement (their place is not constrained): drop them
            a.templates = tmpl_named(
                &[
                    Tmpl::S3,
                    Tmpl::S5,
                    Tmpl::PO4,
                    Tmpl::TS5,
                    Tmpl::PG5,
                    Tmpl::ML5,
                    Tmpl::IC23,
                    Tmpl::IC31,
                    Tmpl::RSa,
                    Tmpl::RSd,
                    Tmpl::RSn,
                ],
                LEVEL_PRICE,
            );
            a.ops = adds(&[1, 2], a.templates.len());
            a.ops.extend(matches(&[1, 2, 4, 7, 1000]));
            a.ops.extend(upds(
                &[1, 2],
                &[
                    UpdKind::Cancel,
                    UpdKind::Move,
                    UpdKind::Amend(1),
                    UpdKind::Amend(6),
                    UpdKind::PqSame(2),
                    UpdKind::ReplaceSame(3),
                ],
            ));
            let mut x = sc_wide(prop);
            x.check.c04 = true;
            x.check.drain = true;
            x.variants = vec![(false, false), (true, false), (false, true), (true, true)];
            // orders that display nothing (display amended to 0, replenish amount 0): a match that walks over
            // them must not change their place
            let mut zz = sc_zero(prop);
            zz.check.c04 = true;
            zz.check.drain = true;
            zz.variants = vec![(false, false), (true, false), (false, true), (true, true)];
            let plan_zz = Plan { cfg: zz, depth: d(5, 8) };
            let mut bk = sc_bulk(prop);
            bk.check.c04 = true;
            bk.check.drain = true;
            bk.variants = vec![(false, false), (true, false), (false, true), (true, true)];
            let plan_bk = Plan { cfg: bk, depth: d(5, 7) };
            let mut ch = sc_churn(prop);
            ch.check.c04 = true;
            ch.check.drain = true;
            ch.variants = vec![(false, false), (true, false), (false, true), (true, true)];
            let mut ru = sc_reuse(prop);
            ru.check.c04 = true;
            ru.check.drain = true;
            ru.variants = vec![(false, false), (true, false), (false, true), (true, true)];
            vec![
                Plan { cfg: ru, depth: d(8, 12) },
                Plan { cfg: ch, depth: d(4, 5) },
                plan_bk,
                plan_zz,
                Plan { cfg: o, depth: d(6, 8) },
                Plan { cfg: a, depth: d(5, 7) },
                Plan { cfg: x, depth: d(6, 8) },
            ]
        }
        "C06" => {
            let mut z = sc_zero(prop);
            z.check.c06 = true;
            z.check.drain = true;
            let mut a = sc_types(prop, &[]);
            a.check.c06 = true;
            a.check.drain = true;
            let mut x = sc_wide(prop);
            x.check.c06 = true;
            x.check.drain = true;
            x.ops.extend(upds(&[1, 2, 3, 5], &[UpdKind::Amend(0)]));
            let mut bk = sc_bulk(prop);
            bk.check.c06 = true;
            bk.check.drain = true;
            let mut ch = sc_churn(prop);
            ch.check.c06 = true;
            ch.check.drain = true;
            vec![
                Plan { cfg: ch, depth: d(4, 5) },
                Plan { cfg: bk, depth: d(5, 7) },
                Plan { cfg: z, depth: d(7, 13) },
                Plan { cfg: a, depth: d(4, 7) },
                Plan { cfg: x, depth: d(6, 8) },
            ]
        }
        "C07" => {
            let mut a = sc_types(prop, &[]);
            a.check.c07 = true;
            a.check.twin = true;
            a.check.drain = true;
            a.absent_ops = true;
            a.variants = vec![(false, false), (true, false), (false, true), (true, true)];
            let mut o = sc_order(prop);
            o.check.c07 = true;
            o.check.twin = true;
            o.check.drain = true;
            o.variants = vec![(false, false), (true, false), (false, true), (true, true)];
            o.ops.extend(upds(
                &[1, 2, 3],
                &[UpdKind::Move, UpdKind::RepriceSame, UpdKind::ReplaceSame(2), UpdKind::PqMove(2)],
            ));
            let mut w = sc_twin(prop);
            w.check.c07 = true;
            w.check.twin = true;
            w.check.drain = true;
            w.absent_ops = true;
            w.variants = vec![(false, false), (true, false), (false, true), (true, true)];
            let mut bk = sc_bulk(prop);
            bk.check.c07 = true;
            bk.check.twin = true;
            bk.check.drain = true;
            bk.variants = vec![(false, false), (true, false), (false, true), (true, true)];
            vec![
                Plan { cfg: a, depth: d(4, 6) },
                Plan { cfg: o, depth: d(5, 7) },
                Plan { cfg: w, depth: d(4, 7) },
                Plan { cfg: bk, depth: d(4, 6) },
                Plan {
                    cfg: {
                        let mut ch = sc_churn(prop);
                        ch.check.c07 = true;
                        ch.check.twin = true;
                        ch.check.drain = true;
                        ch.variants = vec![(false, false), (true, false), (false, true), (true, true)];
                        ch
                    },
                    depth: d(4, 5),
                },
            ]
        }
        "C10" => {
            let mut a = sc_types(prop, &[]);
            a.check.c10 = true;
            let mut o = sc_order(prop);
            o.check.c10 = true;
            let mut e = sc_edge(prop);
            e.check.c10 = true;
            let mut bk = sc_bulk(prop);
            bk.check.c10 = true;
            let mut rt = sc_realts(prop);
            rt.check.c10 = true;
            // an order whose own price differs from the level's
            a.templates.push(("SX5".into(), mk_ts(Tmpl::SX5, 0, LEVEL_PRICE, 0)));
            let nx = a.templates.len() - 1;
            a.ops.push(Op::Add(1, nx));
            a.ops.push(Op::Add(2, nx));
            vec![
                Plan { cfg: rt, depth: d(4, 5) },
                Plan { cfg: a, depth: d(3, 5) },
                Plan { cfg: o, depth: d(4, 7) },
                Plan { cfg: e, depth: d(3, 6) },
                Plan { cfg: bk, depth: d(4, 5) },
            ]
        }
        "C11" => {
            let mut o = sc_order(prop);
            o.check.c11 = true;
            o.variants = vec![(false, false), (true, false), (false, true), (true, true)];
            // timestamps pinned per template are not used: the (id, template) table gives ties (#2,#3)
            // and a later #1; an amended / replenished / re-queued order keeps its timestamp
            let mut bk = sc_bulk(prop);
            bk.check.c11 = true;
            bk.variants = vec![(false, false), (true, false), (false, true), (true, true)];
            let mut rt = sc_realts(prop);
            rt.check.c11 = true;
            rt.variants = vec![(false, false), (true, false), (false, true), (true, true)];
            let mut ru = sc_reuse(prop);
            ru.check.c11 = true;
            ru.variants = vec![(false, false), (true, false), (false, true), (true, true)];
            // zero displays, a reserve whose replenish amount is Some(0) / absent, a fully hidden reserve: type
            // parameters whose serialized form is special must survive every restore path (round 8: C11v-A)
            let mut z = sc_zero(prop);
            z.check.c11 = true;
            z.variants = vec![(false, false), (true, false), (false, true), (true, true)];
            vec![
                Plan { cfg: bk, depth: d(3, 4) },
                Plan { cfg: rt, depth: d(3, 4) },
                Plan { cfg: z, depth: d(3, 4) },
                Plan { cfg: o, depth: d(4, 6) },
                Plan { cfg: ru, depth: d(8, 12) },
            ]
        }
        "C15" => {
            // positive quantities only
            let ts = [
                Tmpl::S3,
                Tmpl::S5,
                Tmpl::PO4,
                Tmpl::TS5,
                Tmpl::PG5,
                Tmpl::ML5,
                Tmpl::IC23,
                Tmpl::IC31,
                Tmpl::RSa,
                Tmpl::RSd,
                Tmpl::RSn,
            ];
            let mut a = base_cfg(prop, "SC-types+", LEVEL_PRICE, tmpl_named(&ts, LEVEL_PRICE));
            a.ops = adds(&[1, 2], ts.len());
            a.ops.extend(matches(&[1, 2, 4, 7, 1000]));
            a.ops.extend(upds(
                &[1, 2],
                &[
                    UpdKind::Cancel,
                    UpdKind::Move,
                    UpdKind::RepriceSame,
                    UpdKind::Amend(1),
                    UpdKind::Amend(6),
                    UpdKind::PqSame(1),
                    UpdKind::PqMove(1),
                    UpdKind::ReplaceSame(6),
                    UpdKind::ReplaceMove(6),
                ],
            ));
            a.check.c15 = true;
            a.stats_in_key = true;
            a.absent_ops = true;
            let mut o = sc_order(prop);
            o.check.c15 = true;
            o.stats_in_key = true;
            o.ops.extend(upds(&[1, 2, 3], &[UpdKind::Move]));
            // a level rebuilt from a snapshot keeps counting: events after a rebuild are counted on top of what the
            // rebuilt level reports; timestamps in other units / in the future of any millisecond clock
            let mut rs = sc_reuse(prop);
            rs.name = "SC-reuse with rebuilds".into();
            rs.check.c15 = true;
            rs.stats_in_key = true;
            rs.ops.extend(upds(&[1, 2], &[UpdKind::Move]));
            rs.ops.extend([Op::Restore(Path::FromSnapshot), Op::Restore(Path::SnapJson), Op::Restore(Path::Serde), Op::Restore(Path::Text)]);
            let mut rt = sc_realts(prop);
            rt.check.c15 = true;
            rt.stats_in_key = true;
            vec![
                Plan { cfg: a, depth: d(4, 6) },
                Plan { cfg: o, depth: d(5, 7) },
                Plan { cfg: rs, depth: d(6, 8) },
                Plan { cfg: rt, depth: d(3, 4) },
            ]
        }
        _ => vec![],
    }
}

/// A plain unit test (public API only, no hooks, no explorer) that replays a history and prints what the
/// level reports after every step; the C01 invariant is asserted, everything else is printed next to the
/// violation message for inspection.
pub fn emit_unit_test(cfg: &LevelCfg, hist: &[u16], message: &str) -> String {
    let mut t = String::new();
    t.push_str("// replays a history found by /verif (engine S) against the public API; put into tests/replay.rs of the repository\n");
    t.push_str(&format!("// finding: {}\n", message.replace('\n', " ")));
    t.push_str("use pricelevel::{OrderId, OrderType, OrderUpdate, PriceLevel, UuidGenerator};\n#[test]\nfn replay() {\n");
    t.push_str(&format!("    let level = PriceLevel::new({});\n", cfg.price));
    t.push_str("    let generator = UuidGenerator::new(uuid::Uuid::parse_str(\"6ba7b810-9dad-11d1-80b4-00c04fd430c8\").unwrap());\n");
    t.push_str("    let show = |l: &PriceLevel, what: &str| {\n        let orders = l.iter_orders();\n        let (sv, sh): (u128, u128) = orders.iter().fold((0, 0), |a, o| (a.0 + o.visible_quantity() as u128, a.1 + o.hidden_quantity() as u128));\n        println!(\"{what}: visible={} hidden={} count={} listed=[{}]\", l.visible_quantity(), l.hidden_quantity(), l.order_count(), orders.iter().map(|o| o.to_string()).collect::<Vec<_>>().join(\" | \"));\n        assert_eq!((l.visible_quantity() as u128, l.hidden_quantity() as u128, l.order_count()), (sv, sh, orders.len()), \"aggregates != sums over listed orders after {what}\");\n    };\n");
    let mut level_var = "level".to_string();
    let mut k = 0;
    if let Some(ms) = cfg.clock_step_ms {
        t.push_str(&format!("    // found under a virtual clock that advances {ms} ms at every reading: real time is let pass between the steps\n"));
    }
    for h in hist {
        let op = cfg.ops[*h as usize];
        let name = cfg.op_name(&op);
        if let Some(ms) = cfg.clock_step_ms {
            t.push_str(&format!("    std::thread::sleep(std::time::Duration::from_millis({}));\n", ms.min(2_000)));
        }
        match op {
            Op::Add(id, tm) => {
                let o = cfg.make_order(id, tm);
                t.push_str(&format!("    {level_var}.add_order(\"{o}\".parse::<OrderType<()>>().unwrap());\n"));
            }
            Op::Match(q) => {
                t.push_str(&format!("    let r = {level_var}.match_order({q}, OrderId::from_u64({}), &generator);\n    println!(\"{name} -> remaining={{}} complete={{}} fills={{:?}} filled={{:?}}\", r.remaining_quantity, r.is_complete, r.transactions.as_vec().iter().map(|t| (t.maker_order_id.to_string(), t.quantity)).collect::<Vec<_>>(), r.filled_order_ids);\n", cfg.taker));
            }
            Op::Upd(kind, id) => {
                let u = cfg.update_of(kind, id);
                t.push_str(&format!("    let r = {level_var}.update_order(\"{u}\".parse::<OrderUpdate>().unwrap());\n    println!(\"{name} -> {{:?}}\", r.map(|o| o.map(|o| o.to_string())));\n"));
            }
            Op::BulkAdd(n) => {
                t.push_str(&format!("    for i in 0..{n}u64 {{ {level_var}.add_order(OrderType::Standard {{ id: OrderId::from_u64(100 + i), price: {}, quantity: 2, side: pricelevel::Side::Buy, timestamp: 1000 + i, time_in_force: pricelevel::TimeInForce::Gtc, extra_fields: () }}); }}\n", cfg.price));
            }
            Op::BulkDormant(n) => {
                t.push_str(&format!("    for i in 0..{n}u64 {{ {level_var}.add_order(OrderType::IcebergOrder {{ id: OrderId::from_u64(300 + i), price: {}, visible_quantity: 0, hidden_quantity: 2, side: pricelevel::Side::Buy, timestamp: 3000 + i, time_in_force: pricelevel::TimeInForce::Gtc, extra_fields: () }}); }}\n", cfg.price));
            }
            Op::BulkCancel(n) => {
                t.push_str(&format!("    for i in 0..{n}u64 {{ let _ = {level_var}.update_order(OrderUpdate::Cancel {{ order_id: OrderId::from_u64(100 + i) }}); }}\n"));
            }
            Op::Quotes(n) => {
                t.push_str(&format!("    for _ in 0..{n} {{ {level_var}.add_order(OrderType::Standard {{ id: OrderId::from_u64(500), price: {}, quantity: 2, side: pricelevel::Side::Buy, timestamp: 5000, time_in_force: pricelevel::TimeInForce::Gtc, extra_fields: () }}); let _ = {level_var}.update_order(OrderUpdate::Cancel {{ order_id: OrderId::from_u64(500) }}); }}\n", cfg.price));
            }
            Op::Churn(id, n) => {
                t.push_str(&format!("    for _ in 0..{n} {{ let _ = {level_var}.update_order(OrderUpdate::UpdateQuantity {{ order_id: OrderId::from_u64({id}), new_quantity: 1 }}); }}\n"));
            }
            Op::Restore(pth) => {
                k += 1;
                let nv = format!("level{k}");
                let expr = match pth {
                    Path::FromSnapshot => format!("PriceLevel::from_snapshot({level_var}.snapshot()).unwrap()"),
                    Path::FromRef => format!("PriceLevel::from(&{level_var}.snapshot())"),
                    Path::Package => format!("PriceLevel::from_snapshot_package({level_var}.snapshot_package().unwrap()).unwrap()"),
                    Path::SnapJson => format!("PriceLevel::from_snapshot_json(&{level_var}.snapshot_to_json().unwrap()).unwrap()"),
                    Path::Serde => format!("serde_json::from_str::<PriceLevel>(&serde_json::to_string(&{level_var}).unwrap()).unwrap()"),
                    Path::Text => format!("{level_var}.to_string().parse::<PriceLevel>().unwrap()"),
                    Path::Data => format!("PriceLevel::try_from(pricelevel::PriceLevelData::from(&{level_var})).unwrap()"),
                };
                t.push_str(&format!("    let {nv} = {expr};\n"));
                level_var = nv;
            }
        }
        t.push_str(&format!("    show(&{level_var}, \"{name}\");\n"));
    }
    t.push_str("}\n");
    t
}

fn hist_names<S: Subject>(s: &S, h: &[u16]) -> Vec<String> {
    h.iter().map(|o| s.op_name(*o)).collect()
}

pub fn wall_cap(tier: &str, nplans: usize) -> Duration {
    let total = if tier == "quick" { 45.0 } else { 1500.0 };
    let total = std::env::var("VERIF_WALL_CAP_S")
        .ok()
        .and_then(|s| s.parse::<f64>().ok())
        .unwrap_or(total);
    Duration::from_secs_f64(total / nplans.max(1) as f64)
}

pub fn threads() -> usize {
    std::env::var("VERIF_THREADS")
        .ok()
        .and_then(|s| s.parse().ok())
        .unwrap_or_else(|| std::thread::available_parallelism().map(|n| n.get()).unwrap_or(8))
}

pub fn run(prop: &str, tier: &str) -> i32 {
    let mut report = Report::new(prop, tier, "model_checking");
    run_into(&mut report, prop, tier, 1.0);
    report.finish()
}

pub fn run_into(report: &mut Report, prop: &str, tier: &str, share: f64) {
    let plans = plans(prop, tier);
    // one budget for the whole check: every plan may use what is left of it (at least a fair share)
    let total = wall_cap(tier, 1).mul_f64(share);
    let fair = wall_cap(tier, plans.len()).mul_f64(share);
    let t0 = std::time::Instant::now();
    let mut tot_states = 0u64;
    let mut tot_trans = 0u64;
    let mut tot_extra = 0u64;
    let mut tot_nontrivial = 0u64;
    let mut tot_outcomes = 0u64;
    let mut runs = vec![];
    let mut samples: Vec<Value> = vec![];
    let mut exhaustive = true;
    for (pi, plan) in plans.into_iter().enumerate() {
        let subject = LevelSubject { cfg: plan.cfg };
        let cfg = BfsConfig {
            max_depth: plan.depth,
            wall_cap: total.saturating_sub(t0.elapsed()).max(fair.mul_f64(0.5)),
            state_cap: 40_000_000,
            threads: threads(),
        };
        let r = bfs(&subject, &cfg);
        tot_states += r.states;
        tot_trans += r.transitions;
        tot_extra += r.extra_exec;
        tot_nontrivial += r.nontrivial;
        tot_outcomes += r.distinct_outcomes;
        if r.capped.is_some() || r.depth_completed < plan.depth {
            exhaustive = false;
        }
        runs.push(json!({
            "alphabet": subject.cfg.name,
            "letters": subject.cfg.ops.len(),
            "depth_target": plan.depth,
            "depth_completed": r.depth_completed,
            "states": r.states,
            "transitions": r.transitions,
            "distinct_outcomes": r.distinct_outcomes,
            "capped": r.capped,
            "per_depth_new_states_transitions": r.per_depth,
        }));
        println!(
            "  [{}] {}: letters={} depth {}/{} states={} transitions={} outcomes={} {}",
            prop,
            subject.cfg.name,
            subject.cfg.ops.len(),
            r.depth_completed,
            plan.depth,
            r.states,
            r.transitions,
            r.distinct_outcomes,
            r.capped.clone().unwrap_or_default()
        );
        for h in r.samples.iter().take(4) {
            samples.push(json!({"alphabet": subject.cfg.name, "history": hist_names(&subject, h)}));
        }
        for (sig, (msg, h, n)) in &r.known {
            let names = hist_names(&subject, h);
            report.known(
                sig,
                format!("[{}] minimal history: {} :: {}", subject.cfg.name, names.join("; "), msg),
            );
            if let Some(e) = report.known.get_mut(sig) {
                e.1 += n - 1;
            }
        }
        for (msg, h) in r.violations.iter().take(20) {
            let names = hist_names(&subject, h);
            report.violation(
                format!("[{}] after history [{}]: {}", subject.cfg.name, names.join("; "), msg),
                json!({
                    "engine": "seq",
                    "property": prop,
                    "tier": tier,
                    "plan": pi,
                    "alphabet": subject.cfg.name,
                    "history": h,
                    "history_names": names,
                    "unit_test": emit_unit_test(&subject.cfg, h, msg),
                }),
            );
        }
    }
    report.add_cov_u64("states", tot_states);
    report.add_cov_u64("transitions", tot_trans);
    report.add_cov_u64("traces_validated_against_impl", tot_trans);
    report.add_cov_u64("implementation_operations_executed_incl_replays", tot_trans + tot_extra);
    report.add_cov_u64("evaluations", tot_trans);
    report.add_cov_u64("distinct_nontrivial", tot_nontrivial);
    report.add_cov_u64("distinct_outcomes", tot_outcomes);
    report.concat_cov(
        "rule",
        "engine S: breadth-first over all operation sequences of the alphabet up to the depth; every transition is executed on a fresh real PriceLevel (history replayed) and checked; states de-duplicated on the implementation's complete state (ticket queue mirror, map content, aggregates) plus alive model variants; non-trivial = reaches a state with >= 2 orders or a partially filled / replenished / amended order",
    );
    report.and_cov("exhaustive", exhaustive);
    report.append_cov("runs", runs);
    report.append_cov("samples", samples);
    report.assumptions.extend([
        "bounded: 2-3 order ids, the listed templates and quantities, depth as reported".to_string(),
        "state keys are 128-bit hashes (collisions neglected)".to_string(),
        "map iteration order is owned by the listing seam (verif-hooks)".to_string(),
    ]);
}

/// `plverif replay <file>`: re-executes a recorded history twice and prints what happened.
pub fn replay(path: &str) -> i32 {
    let Ok(text) = std::fs::read_to_string(path) else {
        eprintln!("cannot read {path}");
        return 2;
    };
    let Ok(doc) = serde_json::from_str::<Value>(&text) else {
        eprintln!("not JSON: {path}");
        return 2;
    };
    let rp = &doc["replay"];
    match rp["engine"].as_str() {
        Some("seq") => {}
        _ => {
            eprintln!("replay: unsupported engine in {path}");
            return 2;
        }
    }
    let prop = rp["property"].as_str().unwrap_or("");
    let tier = rp["tier"].as_str().unwrap_or("quick");
    let pi = rp["plan"].as_u64().unwrap_or(0) as usize;
    let hist: Vec<u16> = rp["history"]
        .as_array()
        .map(|a| a.iter().map(|v| v.as_u64().unwrap_or(0) as u16).collect())
        .unwrap_or_default();
    let mut ps = plans(prop, tier);
    if pi >= ps.len() || hist.is_empty() {
        eprintln!("replay: plan/history not found");
        return 2;
    }
    let plan = ps.remove(pi);
    let subject = LevelSubject { cfg: plan.cfg };
    let mut outs = vec![];
    for round in 0..2 {
        let mut rec = Recorder::install();
        // walk the history step by step so that the alive-variant mask is reproduced
        let mut aux = subject.initial_aux();
        let mut transcript = vec![];
        for i in 0..hist.len() {
            let so = subject.step(&mut rec, &hist[..i], &aux, hist[i], &|_| false);
            transcript.push((
                subject.op_name(hist[i]),
                so.enabled,
                so.violations.clone(),
                so.known.clone(),
                so.outcome,
            ));
            aux = so.aux;
        }
        if round == 0 {
            for (name, en, v, k, _) in &transcript {
                println!("  {name}{}", if *en { "" } else { " (disabled)" });
                for m in v {
                    println!("      VIOLATION: {m}");
                }
                for (s, m) in k {
                    println!("      known finding {s}: {m}");
                }
            }
        }
        outs.push(transcript);
    }
    if outs[0] != outs[1] {
        println!("MACHINERY-ERROR: replay diverged between two executions");
        return 2;
    }
    let bad = outs[0].iter().any(|t| !t.2.is_empty());
    println!("replay deterministic: yes; violation reproduced: {}", if bad { "yes" } else { "no" });
    if bad { 1 } else { 0 }
}
