#!/bin/sh
# usage: tools/import_seed.sh <Cxx> <A|B> "<confirmation line>"
ID=$1; V=$2; D=/verif/seeded/$ID-$V
mkdir -p $D
cp /tmp/mut/$ID/_seed/$V/patch.diff $D/patch.diff
cp /tmp/mut/$ID/_seed/$V/demo.rs $D/demo.rs
python3 - "$ID" "$V" "$3" <<'PY'
import json,sys
pid,v,conf=sys.argv[1:4]
src=f"/tmp/mut/{pid}/_seed/{v}/meta.json"
try: m=json.load(open(src))
except Exception as e: m={"property":pid,"summary":"(meta.json of the sub-agent unreadable)"}
out={"breaks_property":pid,"variant":v,"author":"independent sub-agent given only the property text and a scratch worktree",
     "summary":m.get("summary"),"needs_to_manifest":m.get("needs_to_manifest"),
     "sub_agent_ran":m.get("ran"),
     "confirmed_by_harness_author":{"command":f"tools/confirm_seed.sh {pid}-{v} (scratch worktree of /repo under /tmp: repo tests with the change, demo with and without the change)","result":conf},
     "checks_run":"see selftest/last_run.log and DESIGN.md section 10"}
json.dump(out,open(f"/verif/seeded/{pid}-{v}/meta.json","w"),indent=1)
PY
