#!/bin/sh
# usage: tools/import_round.sh <suffix> <round-number> [Cxx ...]
# Imports /tmp/mut/<Cxx><suffix>/_seed/{A,B} into /verif/seeded/<Cxx><suffix>-{A,B}, confirms each one in its own scratch
# worktree (tools/confirm_seed.sh, four at a time) and writes the confirmation line and the round into meta.json.
SUF=$1; ROUND=$2; shift 2
ROOT="$(cd "$(dirname "$0")/.." && pwd)"
LIST=""
for d in /tmp/mut/C??$SUF; do
    id=$(basename $d)
    if [ $# -gt 0 ]; then case " $* " in *" $(echo $id | cut -c1-3) "*) ;; *) continue;; esac; fi
    for v in A B; do
        [ -f $d/_seed/$v/patch.diff ] && [ -f $d/_seed/$v/demo.rs ] || continue
        [ -d $ROOT/seeded/$id-$v ] && continue
        $ROOT/tools/import_seed.sh $id $v "pending"
        LIST="$LIST $id-$v"
    done
done
echo "imported:$LIST"
echo $LIST | tr ' ' '\n' | grep . | xargs -P 4 -I{} sh -c "$ROOT/tools/confirm_seed.sh {} > /tmp/confirm_{}.txt 2>&1"
for n in $LIST; do
    line=$(tail -1 /tmp/confirm_$n.txt)
    echo "$line"
    python3 - "$ROOT/seeded/$n/meta.json" "$line" "$ROUND" <<'PY'
import json,sys
f,line,r=sys.argv[1:4]
m=json.load(open(f))
m["confirmed_by_harness_author"]["result"]=line.split(": ",1)[-1]
m["round"]=int(r)
m["author"]="independent sub-agent given only the property text and a scratch worktree (no description of the framework)"
json.dump(m,open(f,"w"),indent=1)
PY
    rm -f /tmp/confirm_$n.txt
done
