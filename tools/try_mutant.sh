#!/bin/sh
# usage: tools/try_mutant.sh [--tests] <patch.diff> <Cxx>...
# Applies the patch to /repo's working tree, optionally runs the repository's own test suite (guard off),
# runs the listed quick checks, prints one line per check, and always restores /repo afterwards.
ROOT="$(cd "$(dirname "$0")/.." && pwd)"
TESTS=0
if [ "$1" = "--tests" ]; then TESTS=1; shift; fi
PATCH="$1"; shift
if ! git -C /repo diff --quiet; then echo "try_mutant: /repo has uncommitted changes, refusing"; exit 2; fi
if ! git -C /repo apply "$PATCH"; then echo "try_mutant: patch does not apply: $PATCH"; exit 2; fi
trap 'git -C /repo checkout -- . >/dev/null 2>&1' EXIT INT TERM
name=$(basename "$(dirname "$PATCH")")/$(basename "$PATCH")
if [ $TESTS = 1 ]; then
    out=$(cd /repo && cargo test --workspace --no-fail-fast --offline 2>&1)
    if echo "$out" | grep -q "test result: FAILED\|error\[" ; then
        echo "$name: REPO-TESTS FAIL (the mutant is caught by the existing suite or does not compile)"
        echo "$out" | grep -E "^test .* FAILED|^error" | head -5
    else
        echo "$name: repo tests pass ($(echo "$out" | grep -E '^test result: ok. [1-9]' | head -1 | cut -c1-40))"
    fi
fi
for p in "$@"; do
    out=$("$ROOT/check" "$p" quick 2>&1); code=$?
    v=$(echo "$out" | grep -c "^VIOLATION")
    first=$(echo "$out" | grep -m1 "violation:" | cut -c1-260)
    echo "$name: $p exit=$code violations=$v $first"
done
