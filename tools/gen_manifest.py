#!/usr/bin/env python3
"""Regenerates /verif/MANIFEST.json from the table below (kept valid at all times)."""
import json, os, subprocess
ROOT = os.path.dirname(os.path.dirname(os.path.abspath(__file__)))
props = [json.loads(l) for l in open(os.path.join(ROOT, "properties.jsonl"))]

S = "engine S (seqmc): breadth-first explicit-state search over all operation sequences of a small alphabet on the real PriceLevel, every transition executed on the implementation and compared with a reference model / property predicates"
C = "engine C (schedmc): stateless exploration of all thread interleavings (iterative preemption bounding) of enumerated small programs on the real PriceLevel under a deterministic coroutine scheduler hooked at every atomic / map / queue operation"
G = "engine G (gridmc): bounded-exhaustive enumeration of input grids and of single / paired edits of serialized forms"

CHECKS = {
 "C01": dict(engine="seqmc", cat="model_checking", ref="5 (C01), 3.2",
   text="Every operation sequence over the SC-types (63 letters incl. all seven rebuild paths), SC-zero, SC-edge (64-bit limits), SC-twin (ids of different formats sharing their bytes), SC-wide (four ids) and SC-bulk (macro letters: 8 / 70 orders at once, 36 cancels, 40 amendments) alphabets up to the reported depth is executed on the real level; after every transition the aggregates must equal the sums over iter_orders(), snapshot fields and total_quantity must agree. One alphabet is explored a second time under the clock seam (the harness answers clock_gettime: a virtual clock jumping 1.5 s at every reading), so that time-driven behaviour is part of every history. Exhaustive within the bound, which is what a property over all histories needs. One alphabet is also explored with the taker carrying the id of resting order #1 (the taker id is only a label).",
   note="bounded depth / 2-3 ids / listed templates; 128-bit state hashes; listing seam owns map iteration order",
   tech="explicit-state BFS on the implementation (history replay), aggregate-vs-listing invariant on every transition"),
 "C02": dict(engine="seqmc", cat="model_checking", ref="5 (C02), 3.2",
   text="Every match transition reachable in SC-types (+ an order priced off-level), SC-order, SC-zero and SC-edge is checked for executed+remaining=requested, completion flag, per-transaction fields incl. the generator's next unused id, per-maker conservation (total before = fills + total after, hidden discarded only by a manual reserve) and the filled-id list (pure predicates from the statement - no queue discipline is pinned); plus the MatchResult builder grid (every sequence of <= 4 transactions, quantities in {0,1,2,3,MAX}, on MatchResult::new(id, q)). One alphabet is explored a second time under the clock seam (the harness answers clock_gettime: a virtual clock jumping 1.5 s at every reading), so that time-driven behaviour is part of every history. One alphabet is also explored with the taker carrying the id of resting order #1 (the taker id is only a label). Generator lifetimes: generators resumed around every power of ten, at the 32 / 53 / 64-bit limits and at counters 10^9, 10^10, 2^32, 10^19 apart each serve one match; all transaction ids must be distinct and those of their counter values. The builder grid also appends transactions carrying an unrelated taker id and the other-format twin of the result's id.",
   note="as C01; lifetime bound follows by induction over the explored transitions",
   tech="explicit-state BFS on the implementation with accounting predicates on every match transition + exhaustive builder grid"),
 "C04": dict(engine="seqmc", cat="model_checking", ref="5 (C04), 3.1",
   text="All histories of SC-order (3 ids, 26 letters), a two-id all-types alphabet, SC-zero (orders that display nothing), SC-wide (four ids) and SC-bulk (macro letters reaching 70 resting orders / 40 stale tickets) up to the reported depth; every result, the resting set and a draining match from every state are compared with the ideal priority model and with the known-deviation variants (KF1 tail re-queue, KF2 stale ticket). One alphabet is explored a second time under the clock seam (the harness answers clock_gettime: a virtual clock jumping 1.5 s at every reading), so that time-driven behaviour is part of every history. Behaviour explained only by an open known finding prints KNOWN-FINDING; behaviour matching no variant is a VIOLATION. One alphabet is also explored with the taker carrying the id of resting order #1 (the taker id is only a label). Long and churn sweeps (single calls visiting 7*10^4 .. 1.2*10^6 makers; a level amended 70 000 times in front of live orders) are executed directly and checked with this property's predicates. SC-reuse (two ids that come and go: add / cancel / match / re-add) is explored to depth 8 (thorough 12), SC-churn holds macro letters of 1100 / 4200 amendments.",
   note="ideal model written from the statement (a maker that cannot give anything keeps its place); the iceberg tranche size is adopted from the implementation within the statement's bounds; known findings listed in KNOWN_FINDINGS.txt",
   tech="explicit-state BFS on the implementation vs ideal reference model with known-deviation variants"),
 "C06": dict(engine="seqmc", cat="model_checking", ref="5 (C06)",
   text="Every match letter in every state reachable in SC-zero (zero displays, zero replenish amounts, fully hidden reserve, amend to 0), SC-types, SC-wide and SC-bulk (70-order books, long runs of stale tickets), plus a draining match from every state, must return within a step budget counted by the hook, leave no displayed quantity if something remains, and execute at least min(requested, displayed). One alphabet is explored a second time under the clock seam (the harness answers clock_gettime: a virtual clock jumping 1.5 s at every reading), so that time-driven behaviour is part of every history. One alphabet is also explored with the taker carrying the id of resting order #1 (the taker id is only a label).",
   note="non-termination detected by a budget of 5*10^3 hooked shared-memory steps per call (a legitimate sweep over 70 orders needs about 10^3)",
   tech="explicit-state BFS on the implementation with a per-call step budget (hook as step counter)"),
 "C07": dict(engine="seqmc", cat="model_checking", ref="5 (C07)",
   text="All five update kinds for present and absent ids, equal and different prices, over all templates, in every reachable state: return value and post-state are compared with the reference model and with model-independent predicates against the pre-state listing; every history is executed twice, quietly and with the full read battery after every operation, and both runs must agree (purity). One alphabet is explored a second time under the clock seam (the harness answers clock_gettime: a virtual clock jumping 1.5 s at every reading), so that time-driven behaviour is part of every history. One alphabet is also explored with the taker carrying the id of resting order #1 (the taker id is only a label). Long and churn sweeps (single calls visiting 7*10^4 .. 1.2*10^6 makers; a level amended 70 000 times in front of live orders) are executed directly and checked with this property's predicates.",
   note="amend of TrailingStop/Pegged/MarketToLimit/Reserve is specified as a no-op (pinned by the repository's tests)",
   tech="explicit-state BFS on the implementation, twin execution with read-only calls interleaved"),
 "C10": dict(engine="seqmc", cat="model_checking", ref="5 (C10)",
   text="In every reachable state (after fills, replenishments, amends) each of the seven rebuild paths is executed for every permutation of the pre-sort listing (ties), and each constructor is fed aggregate fields that disagree with the orders; rebuilt content, derived aggregates and the timestamp-sorted duplicate-free listing are checked. One alphabet is explored a second time under the clock seam (the harness answers clock_gettime: a virtual clock jumping 1.5 s at every reading), so that time-driven behaviour is part of every history. One alphabet is also explored with the taker carrying the id of resting order #1 (the taker id is only a label). Long and churn sweeps (single calls visiting 7*10^4 .. 1.2*10^6 makers; a level amended 70 000 times in front of live orders) are executed directly and checked with this property's predicates. The JSON paths read the document directly, through a byte reader and through a serde_json::Value.",
   note="as C01",
   tech="explicit-state BFS on the implementation, per-state rebuild matrix (paths x tie permutations x foreign aggregates)"),
 "C11": dict(engine="seqmc", cat="model_checking", ref="5 (C11)",
   text="In every state reachable in SC-order (ties, non-monotone timestamps, re-queued / replenished / amended orders) and in SC-zero (zero-display orders, reserves with replenish amount Some(0) / absent, fully hidden reserves; depth 3 / 4) the level is restored through each of the four snapshot paths for every permutation of tied listing entries, and the original (replayed), the restored level and a fresh level re-adding the listed orders in listed order are driven through every continuation of length <= 2 over {match 1,2,4,1000; cancel #1..#3} plus a draining match. restored == re-added always; original == restored unless the original's queue order is not the strict timestamp order (KF3) or holds stale tickets (KF2). One alphabet is also explored with the taker carrying the id of resting order #1 (the taker id is only a label). Long and churn sweeps (single calls visiting 7*10^4 .. 1.2*10^6 makers; a level amended 70 000 times in front of live orders) are executed directly and checked with this property's predicates. Further alphabets: SC-bulk, SC-realts (timestamps in seconds, milli-, micro- and nanoseconds), SC-reuse to depth 8 (thorough 12).",
   note="differential on the real code only; classification uses the hook's ticket mirror; known findings listed in KNOWN_FINDINGS.txt",
   tech="explicit-state BFS on the implementation, three-way differential (original / restored / re-added) over all continuations"),
 "C19": dict(engine="seqmc", cat="model_checking", ref="5 (C19)",
   text="All sequences over push / pop / remove / find / len / is_empty / to_vec on a real OrderQueue (3 ids, re-push after removal allowed) up to the reported depth against a FIFO-with-removal model (result, content, len, is_empty, pop order of a final drain); text / JSON / from_vec / From<Vec> forms rebuilt in every new state; all lists of <= 3 orders in every permutation through the four constructors. The stale-ticket deviation is the open known finding KF2. Five long histories (30 000 - 131 072 removals / re-pushes in a row, around 2^16 and 2^17) are executed on the real queue and on the model.",
   note="3 ids; known finding KF2 listed in KNOWN_FINDINGS.txt",
   tech="explicit-state BFS on the real OrderQueue vs FIFO reference model with a known-deviation variant"),
 "C03": dict(engine="schedmc", cat="model_checking", ref="5 (C03), 3.3",
   text="Every program of the enumerated families (all multisets of 2 one-operation threads over a 19-letter alphabet incl. every update kind on eight pre-loaded books - one of them not fresh (stale and duplicate tickets), one with a fully hidden reserve order -, all multisets of 3 over 11 letters on five books, all pairs of two-operation threads, pairs on a 70-order book; thorough adds 4 threads, 3x2 operations, bound 4 and the 2-thread programs without any bound) x every interleaving within the preemption bound is executed on the real level. Further families: levels with a long history (1019..1028 same-price amendments, or 62..66 of 70 orders cancelled, before the threads start; thorough 1017..1030 / 60..67), a reader that rebuilds a level from the snapshot it took concurrently and empties it, one fine-grained call against 3-4 call-atomic calls of another thread, and the two-thread programs again under a virtual clock that jumps 1.5 s / 1 h (thorough also 0 / 0.4 s) at every reading. At quiescence: aggregates = sums over the listing, the per-order equation supplied(+amend adjustments) = executed + cancelled + resting + discarded, and every ownership link reconstructed from the map events (pop..push of a match, remove..push of an amend, remove of a cancel) conserves quantity according to the matching rules.",
   note="SC interleavings at the granularity of hooked operations; statistics atomics and id counter not scheduling points (write-only: sound); DashMap::iter atomic",
   tech="stateless model checking of the implementation under a controlled coroutine scheduler, iterative preemption bounding, ownership-ledger oracle"),
 "C08": dict(engine="schedmc", cat="model_checking", ref="5 (C08), 3.3",
   text="The C03 programs and schedules followed by a draining match: it must execute exactly the displayed + replenishable quantity the quiescent listing promises, per order; nothing with displayed quantity may remain and the aggregates must describe what is left. Plus all 2-3 thread programs of push / pop / remove / find on the bare OrderQueue under every interleaving (no bound), followed by a sequential drain: orders handed out = orders handed in, each exactly once.",
   note="as C03",
   tech="stateless model checking under a controlled scheduler + drain reachability oracle; unbounded DFS for the queue programs"),
 "C12": dict(engine="schedmc", cat="model_checking", ref="5 (C12), 3.3",
   text="The C03 programs and schedules with a monitor that reads visible, hidden and count after every single scheduled step (and reader threads that snapshot the level): no figure may exceed everything the program ever supplies, in particular no wrapped value. The figures are also checked after the final draining match, and on the level a reader rebuilt from its concurrent snapshot after emptying it.",
   note="as C03; the bound is program-wide (book + all adds + all amend targets)",
   tech="stateless model checking under a controlled scheduler with a between-step invariant monitor"),
 "C13": dict(engine="schedmc", cat="model_checking", ref="5 (C13), 3.3",
   text="All programs with a cancel, price move or quantity amend racing matches, amends and cancels, every interleaving within the bound: a not-found answer is checked against the ownership ledger at the failing lookup (who holds the order, does it come back), a successful cancel against later map inserts and fills. Not-found while a matcher (KF4) or an amend (KF5) holds the order are the two open known findings; not-found while the order is in the map or held by anything else is a VIOLATION.",
   note="as C03; call invocation time = the call's first shared-memory step",
   tech="stateless model checking under a controlled scheduler, ledger-based linearizability predicate for acknowledgements"),
 "C14": dict(engine="schedmc", cat="model_checking", ref="5 (C14)",
   text="k in 2..4 threads x n in 1..3 calls of UuidGenerator::next on a shared generator, every interleaving of the counter step (no bound), three namespaces: ids distinct, equal as a set to the first k*n name-based ids computed independently, and reproduced by a fresh generator. Plus the transaction ids of all matches of 2-3 thread level programs sharing one generator, with the counter as a scheduling point.",
   note="SC interleavings; uuid crate trusted for v5",
   tech="stateless model checking under a controlled scheduler (unbounded DFS for the generator programs)"),
 "C05": dict(engine="gridmc", cat="exploration", ref="5 (C05), 3.4",
   text="The full Cartesian product of the ten-dimensional input space on a grid of small values and 64-bit boundary values (about 4*10^5 (order, incoming) pairs, all seven types) is evaluated through OrderType::match_against and each result is checked against the statement's predicates (consumed, remaining, conservation of the total, hidden_reduced, the iceberg tranche as an inequality, reserve and plain types exactly, identity fields and parameters unchanged). Exhaustive on the grid; the same rules are observed through the level by engine S. Long and churn sweeps (single calls visiting 7*10^4 .. 1.2*10^6 makers; a level amended 70 000 times in front of live orders) are executed directly and checked with this property's predicates.",
   note="grid points only; the iceberg tranche is checked as the inequality the property states",
   tech="bounded-exhaustive enumeration of the input grid against the specification predicates"),
 "C09": dict(engine="gridmc", cat="fault_enumeration", ref="5 (C09), 3.4",
   text="For each seed level (all templates, two-order books, boundary-value books with both id formats, and 40- / 70-order levels whose packages exceed 4 and 8 KiB at every alignment) every truncation point, every single-character deletion / substitution / insertion with 97 characters at every offset of the package JSON, every structural edit (drop / duplicate / swap orders, delete any field, rewrite any number or enum string, version, checksum variants, envelope stripped / re-nested), pairs of structural edits, field-boundary shifts (1-4 characters migrating from one literal to another so that the concatenation of the two values is unchanged: every ordered pair of numeric literals on the small packages, consecutive literals on the large ones, consecutive string values) and in-memory edits of the package value are executed through the real restore path. Also: levels whose orders share a timestamp, written in every listing order (6 / 24-120 sequences), ids rewritten as a whole into the other id format / another spelling / another id; the untouched package must restore the listed sequence (first visits of a draining match). A restore must fail, or yield exactly the snapshotted content (price, aggregates, every order field, re-snapshot text, maker sequence of a draining match); prefixes and unsupported versions must fail.",
   note="no assumption about SHA-256: every mutated input is executed; seeds as listed in the evidence",
   tech="exhaustive single- and double-fault enumeration (torn writes, byte edits, structural edits) on the serialized package, executed on the implementation"),
 "C16": dict(engine="gridmc", cat="exploration", ref="5 (C16), 3.4",
   text="parse(print(v)) == v for every value of a boundary grid per codec type (about 8*10^5 values: ids in both formats incl. nil / all-ones / max ULID, prices, quantities, timestamps in {0,1,2^53+1,MAX-1,MAX}, i64 limits, seven time-in-force values incl. GTD 0 and MAX, all type parameters, lists of 0..3 elements, levels and queues of 0..3 orders). Plus an engine-C stage: a reader thread prints the level as text while one or two writer threads run (every interleaving within the preemption bound) and the library's parser must accept the result.",
   note="grid points only",
   tech="bounded-exhaustive enumeration of the value grid, round-trip equality"),
 "C17": dict(engine="gridmc", cat="exploration", ref="5 (C17), 3.4",
   text="from_json(to_json(v)) == v for the same grid as C16 for every serde-enabled type; snapshot packages must still validate after the trip (serde and to_json/from_json); the serde-enabled id generator must continue its sequence. Three levels whose running totals wrapped past 2^64 are part of the grid. Plus an engine-C stage: a reader thread serializes the level to JSON while one or two writer threads run (every interleaving within the preemption bound) and deserialization must accept the result.",
   note="grid points only",
   tech="bounded-exhaustive enumeration of the value grid, JSON round-trip equality"),
 "C18": dict(engine="gridmc", cat="exploration", ref="5 (C18), 3.4",
   text="28 entry points (13 FromStr, 15 JSON). For 77 seeds (a valid encoding per type and variant): every truncation, every deletion / insertion / substitution at every character offset with a 17-symbol alphabet incl. 2-, 3- and 4-byte characters and NUL, every numeric literal rewritten (0, +-1, x10, 2^64-1, 2^64, 40 digits, negative, exponent, hex, 15..256 digits followed by a multi-byte character), every segment duplicated / dropped / swapped / repeated 7..130 times, 7..65 extra key=value segments; for the JSON seeds every key deleted, every number rewritten to ten boundary / huge values, every value replaced by seven values of other types, and every (deleted key, second edit) pair; every seed fed to every parser; every string of length <= 4 (thorough 5) over a 15-symbol alphabet after each format prefix; thorough adds all pairs of character edits. Every input is parsed under catch_unwind with a hang watchdog.",
   note="edits of valid encodings and short strings, not all Unicode strings; the sweep runs in a child process, an abort (stack overflow, allocation failure) is pinned to its input and reported as a violation",
   tech="bounded-exhaustive enumeration of single / double edits at every offset, executed on the implementation under a panic and hang guard"),
 "C15": dict(engine="seqmc", cat="model_checking", ref="5 (C15)",
   text="Sequential half: all histories with positive quantities, statistics counters in the state key; after every transition the four counters must equal the events derived from the implementation's own return values. Concurrent half: 2-3 thread programs with the eight statistics atomics as scheduling points, every interleaving within the bound, counters at quiescence vs the events the threads observed; the statistics object on its own from 2-3 threads (all interleavings, plus 'victim' programs where one thread is preempted at every step against up to 24 complete calls of the other); long sweeps (one call with 7*10^4..1.2*10^6 fills). One sequential alphabet is explored again under the clock seam (virtual clock jumping 1.5 s per reading). One alphabet is also explored with the taker carrying the id of resting order #1 (the taker id is only a label). Also: SC-reuse with rebuild letters (events after a rebuild are counted on top of what the rebuilt level reports) and SC-realts (stamps in the future of a millisecond clock).",
   note="orders carry the level's price (the property's premise); SC interleavings",
   tech="explicit-state BFS on the implementation + stateless model checking under a controlled scheduler, counters vs observed events"),
}

m = {
 "version": 1,
 "setup_cmd": "cd /verif/harness && CARGO_NET_OFFLINE=true cargo build --release --offline",
 "hooks": {
   "guard": "verif-hooks",
   "enable": "cargo feature verif-hooks of the pricelevel crate, switched on by the harness's path dependency on /repo (harness/Cargo.toml); every check rebuilds the harness, and with it /repo's working tree, before running",
   "baseline_off_cmd": "cd /repo && cargo test --workspace --no-fail-fast --offline",
   "source_commits": [],
   "add_only": True,
 },
 "engines": [
   {"name": "seqmc", "path": "harness/src/seqmc.rs", "serves_properties": [], "kind_free_text": S},
   {"name": "schedmc", "path": "harness/src/sched.rs", "serves_properties": [], "kind_free_text": C},
   {"name": "gridmc", "path": "harness/src/grid.rs", "serves_properties": [], "kind_free_text": G},
 ],
 "checks": [],
 "notes": "See DESIGN.md. ./check <id> <tier>; exit 0 pass (KNOWN-FINDING lines possible), 1 violation, 2 machinery failure.",
 "not_applicable": [],
}
try:
    out = subprocess.run(["git", "-C", "/repo", "log", "--format=%H %s"], capture_output=True, text=True).stdout
    m["hooks"]["source_commits"] = [l.split()[0] for l in out.splitlines() if "verif hooks" in l or "verif-hooks" in l]
except Exception:
    pass
for p in props:
    pid = p["id"]
    c = CHECKS.get(pid)
    if not c:
        m["not_applicable"].append({"property_id": pid, "reason": "check not built yet (work in progress, see DESIGN.md section 9)"})
        continue
    for e in m["engines"]:
        if e["name"] == c["engine"]:
            e["serves_properties"].append(pid)
    m["checks"].append({
        "property_id": pid,
        "quick_cmd": f"./check {pid} quick",
        "thorough_cmd": f"./check {pid} thorough",
        "evidence_file": f"/verif/evidence/{pid}.json",
        "replay_cmd_template": "./check replay {path}",
        "engine": c["engine"],
        "level_claimed": {"category": c["cat"], "text": c["text"], "design_ref": c["ref"]},
        "level_note": c["note"],
        "technique": c["tech"],
    })
m["engines"] = [e for e in m["engines"] if e["serves_properties"]]
json.dump(m, open(os.path.join(ROOT, "MANIFEST.json"), "w"), indent=1)
print("checks:", [c["property_id"] for c in m["checks"]], "n/a:", [n["property_id"] for n in m["not_applicable"]])
