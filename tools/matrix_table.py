#!/usr/bin/env python3
"""Turns selftest/last_run.log into the detection table of DESIGN.md section 10 (between the markers)."""
import re, os, json
ROOT = os.path.dirname(os.path.dirname(os.path.abspath(__file__)))
# round 1 (own + first seeded changes) and rounds 2-3 (the "x" seeds, run after the widenings) are separate runs
log = ""
r1 = os.path.join(ROOT, "selftest/last_run.round1.log")
r23 = os.path.join(ROOT, "selftest/last_run.rounds23.log")
if os.path.exists(r1):
    keep = True
    for line in open(r1).read().splitlines():
        if line.startswith("=== "):
            keep = ("x-" not in line) and ("y-" not in line) and ("z-" not in line)
        if keep:
            log += line + "\n"
if os.path.exists(r23):
    log += open(r23).read()
# rounds 5 and 6 (the "y" and "z" seeds) and the own change m21 were run after their widenings
for extra in ("selftest/last_run.round5.log", "selftest/last_run.round6.log", "selftest/last_run.m21.log", "selftest/last_run.round7.log", "selftest/last_run.round8.log"):
    e = os.path.join(ROOT, extra)
    if os.path.exists(e):
        log += open(e).read()
if not log:
    log = open(os.path.join(ROOT, "selftest/last_run.log")).read()
rows = []
cur = None
for line in log.splitlines():
    m = re.match(r"=== (.*)", line)
    if m:
        cur = {"name": m.group(1), "tests": "?", "caught": [], "mach": []}
        rows.append(cur)
        continue
    if cur is None:
        continue
    if "repo tests pass" in line: cur["tests"] = "pass"
    if "REPO-TESTS FAIL" in line: cur["tests"] = "FAIL"
    m = re.match(r"\s+MACHINERY exit=(\d+) (C\d+)", line)
    if m: cur["mach"].append(m.group(2))
    m = re.match(r"\s+SUMMARY \S+ caught_by:(.*)\(quiet", line)
    if m: cur["caught"] = m.group(1).split()
def describe(name):
    base = name.split("/")[0] if name.startswith("C") else name.split("/")[-1].replace(".diff", "")
    if name.startswith("C"):
        d = os.path.join(ROOT, "seeded", base, "meta.json")
        try:
            s = json.load(open(d)).get("summary") or ""
        except Exception:
            s = ""
        return base, "seeded (sub-agent)", s
    t = os.path.join(ROOT, "selftest", base + ".txt")
    try:
        s = open(t).read().splitlines()[0]
    except Exception:
        s = ""
    return base, "selftest (own)", s
out = ["| change | origin | what it does | repo tests | target caught | caught by |", "|---|---|---|---|---|---|"]
missed = []
for r in rows:
    base, origin, s = describe(r["name"])
    s = (s[:150] + "…") if len(s) > 150 else s
    s = s.replace("|", "/").replace("\n", " ")
    target = base.split("-")[0].rstrip("vwxyz") if base.startswith("C") else None
    tc = ""
    if target:
        tc = "yes" if target in r["caught"] else "**no**"
        if target not in r["caught"]: missed.append(base)
    out.append(f"| {base} | {origin} | {s} | {r['tests']} | {tc} | {' '.join(r['caught']) or '—'}{(' (machinery error: ' + ' '.join(r['mach']) + ')') if r['mach'] else ''} |")
table = "\n".join(out)
p = os.path.join(ROOT, "DESIGN.md")
d = open(p).read()
a, b = "<!-- MATRIX-BEGIN -->", "<!-- MATRIX-END -->"
if a in d:
    d = d[:d.index(a) + len(a)] + "\n" + table + "\n" + d[d.index(b):]
    open(p, "w").write(d)
print(table)
print("target check missed:", missed)
