#!/bin/sh
# usage: tools/confirm_seed.sh <Cxx-A|Cxx-B>      (a directory under /verif/seeded)
# Confirms a seeded change in a scratch worktree of /repo (created under /tmp, removed afterwards):
# (1) the repository's tests pass with it, (2) its demonstration fails with it, (3) the demonstration passes without it.
N=$1; S=/verif/seeded/$N; W=/tmp/confirm_$N
[ -f $S/patch.diff ] || { echo "no such seed $N"; exit 2; }
git -C /repo worktree add --detach $W HEAD -q || exit 2
cp /repo/Cargo.lock $W/ 2>/dev/null
trap 'git -C /repo worktree remove --force $W >/dev/null 2>&1' EXIT INT TERM
cd $W || exit 2
FEAT=""; grep -q "verif-hooks\|verif_hooks" $S/demo.rs && FEAT="--features verif-hooks"
git apply $S/patch.diff || { echo "$N: PATCH DOES NOT APPLY"; exit 1; }
t=$(cargo test --workspace --no-fail-fast --offline 2>&1)
if echo "$t" | grep -q "test result: FAILED\|^error"; then T="tests FAIL with change"; else T="tests pass with change ($(echo "$t" | grep -E '^test result: ok. [1-9]' | head -1 | cut -d. -f2 | cut -d';' -f1))"; fi
cp $S/demo.rs tests/demo_seed.rs
d=$(timeout 900 cargo test --offline --release $FEAT --test demo_seed 2>&1)
if echo "$d" | grep -q "test result: FAILED\|panicked"; then D1="demo FAILS with change"; elif echo "$d" | grep -q "^error"; then D1="demo does not compile"; else D1="demo passes with change (!)"; fi
git checkout -q -- src
d2=$(timeout 900 cargo test --offline --release $FEAT --test demo_seed 2>&1)
if echo "$d2" | grep -q "test result: FAILED\|panicked"; then D2="demo FAILS without change (!)"; elif echo "$d2" | grep -q "^error"; then D2="demo does not compile"; else D2="demo passes without change"; fi
echo "$N: $T; $D1; $D2"
