#!/bin/sh
# usage: tools/confirm_seed.sh <Cxx> <A|B>
# Confirms a seeded change in its scratch worktree /tmp/mut/<Cxx>: (1) the repository's tests pass with it,
# (2) its demonstration fails with it, (3) the demonstration passes without it. Prints one summary line.
ID=$1; V=$2; W=/tmp/mut/$ID; S=$W/_seed/$V
cd $W || exit 2
git checkout -q -- src Cargo.toml 2>/dev/null; rm -f tests/demo_seed.rs
FEAT=""; grep -q "verif-hooks\|verif_hooks" $S/demo.rs && FEAT="--features verif-hooks"
git apply $S/patch.diff || { echo "$ID-$V: PATCH DOES NOT APPLY"; exit 1; }
t=$(cargo test --workspace --no-fail-fast --offline 2>&1); 
if echo "$t" | grep -q "test result: FAILED\|^error"; then T="tests FAIL with change"; else T="tests pass with change ($(echo "$t" | grep -E '^test result: ok. [1-9]' | head -1 | cut -d. -f2 | cut -d';' -f1))"; fi
cp $S/demo.rs tests/demo_seed.rs
d=$(timeout 900 cargo test --offline --release $FEAT --test demo_seed 2>&1); 
if echo "$d" | grep -q "test result: FAILED\|panicked"; then D1="demo FAILS with change"; elif echo "$d" | grep -q "^error"; then D1="demo does not compile ($(echo "$d" | grep -m1 '^error' | cut -c1-80))"; else D1="demo passes with change (!)"; fi
git checkout -q -- src
d2=$(timeout 900 cargo test --offline --release $FEAT --test demo_seed 2>&1);
if echo "$d2" | grep -q "test result: FAILED\|panicked"; then D2="demo FAILS without change (!)"; elif echo "$d2" | grep -q "^error"; then D2="demo does not compile"; else D2="demo passes without change"; fi
rm -f tests/demo_seed.rs
echo "$ID-$V: $T; $D1; $D2"
